(* Sequential refinement (C02, C05, C14, C18): the single-threaded model of Model/Seq.v refines the
   abstract map of Model/Spec.v and keeps the well-formedness of Model/WF.v.
   The facts about red-black tree bins that are used are hypotheses of Section TreeFacts
   (they are proved in Proofs/RBProofs.v); list and table lemmas are in Proofs/SeqLemmas.v. *)
From Flurry Require Import Model.Spec Proofs.ArithProofs Proofs.SeqLemmas.
From Coq Require Import Permutation Lia ZArith NArith List Bool.
Import ListNotations.
Open Scope Z_scope.
Ltac Zify.zify_post_hook ::= Z.div_mod_to_equations.

Arguments N.land : simpl never.
Arguments N.ones : simpl never.
Arguments N.pow : simpl never.
Arguments Z.pow : simpl never.
Arguments N.testbit : simpl never.
Arguments Z.of_nat : simpl never.
Arguments Z.to_N : simpl never.

(* ------------------------------------------------------------------------------------------ *)
(** * Arithmetic of the regenerated definitions, in the form used below *)

Lemma lf_pos n : 1 <= n -> 1 <= load_factor n.
Proof. intros H. rewrite load_factor_eq. lia. Qed.

Lemma lf_double n : 0 <= n -> load_factor n <= load_factor (2 * n).
Proof. intros H. rewrite !load_factor_eq. lia. Qed.

Lemma next_threshold_pow2 (j : nat) :
  (j < 30)%nat -> next_threshold (2 ^ Z.of_nat j) = load_factor (2 * 2 ^ Z.of_nat j).
Proof.
  intros Hj. assert (Hb : 0 <= 2 ^ Z.of_nat j < 2 ^ 61).
  { split; [apply Z.pow_nonneg; lia|]. apply Z.pow_lt_mono_r; lia. }
  destruct (next_threshold_eq (2 ^ Z.of_nat j) Hb) as [E1 E2].
  - destruct j as [|j]; [right; reflexivity|left].
    rewrite Nat2Z.inj_succ, Z.pow_succ_r by lia. rewrite Z.even_mul. reflexivity.
  - rewrite E1, E2. reflexivity.
Qed.

(* both capacity roundings yield a legal table length, whatever the argument *)
Lemma capacity_round_pow2 c :
  exists j : nat, (j <= 30)%nat /\ capacity_round_try_presize c = 2 ^ Z.of_nat j.
Proof.
  unfold capacity_round_try_presize. rewrite MAXIMUM_CAPACITY_eq.
  destruct (Z.geb_spec c (2 ^ 30 / 2)).
  - exists 30%nat. split; [lia|reflexivity].
  - cbv zeta. destruct (next_pow2_is_pow2 (c + Z.shiftr c 1 + 1)) as (j & Hj & E).
    rewrite E. destruct (Z.le_gt_cases (2 ^ j) (2 ^ 30)) as [Hle|Hgt].
    + rewrite Z.min_r by assumption. exists (Z.to_nat j). rewrite Z2Nat.id by exact Hj.
      split; [|reflexivity]. apply Z.pow_le_mono_r_iff in Hle; lia.
    + rewrite Z.min_l by lia. exists 30%nat. split; [lia|reflexivity].
Qed.

Lemma pow2_max (a b : nat) : Z.max (2 ^ Z.of_nat a) (2 ^ Z.of_nat b) = 2 ^ Z.of_nat (Nat.max a b).
Proof.
  destruct (Nat.le_ge_cases a b) as [H|H].
  - rewrite Nat.max_r by exact H. apply Z.max_r. apply Z.pow_le_mono_r; lia.
  - rewrite Nat.max_l by exact H. apply Z.max_l. apply Z.pow_le_mono_r; lia.
Qed.

Lemma pow2_pos (j : nat) : 1 <= 2 ^ Z.of_nat j.
Proof. pose proof (Z.pow_pos_nonneg 2 (Z.of_nat j)). lia. Qed.

(* ------------------------------------------------------------------------------------------ *)
Section WithHash.
Variable khash : N -> N.
Variable remap : N -> N -> Z -> option Z.
Variable keep : N -> N -> Z -> bool.

(** * The invariant *)

(* Model/WF.v accepts any threshold 0 <= sc for a map without table; the lazily created table has
   length sc, so sc must be a legal length (the implementation only ever has 0 there). *)
Definition none_ok (s : st) : Prop :=
  tbl s = None -> sc s = 0 \/ exists j : nat, (j <= 30)%nat /\ sc s = 2 ^ Z.of_nat j.

Definition WF (s : st) : Prop := wf_b khash s = true /\ none_ok s.

(* the part of WF that does not mention the counter *)
Definition WFS (s : st) : Prop :=
  match tbl s with
  | None => sc s = 0 \/ exists j : nat, (j <= 30)%nat /\ sc s = 2 ^ Z.of_nat j
  | Some t => WFT khash t /\ sc s = load_factor (tlen t)
  end.

Lemma WF_iff s : WF s <-> WFS s /\ cnt s = Z.of_nat (length (nodes s)).
Proof.
  destruct s as [[t|] sc0 cnt0]; unfold WF, none_ok, WFS; cbn [tbl sc cnt nodes].
  - rewrite wf_b_some. split.
    + intros [(H1 & H2 & H3) _]. tauto.
    + intros [[H1 H3] H2]. split; [tauto|discriminate].
  - unfold wf_b. cbn [tbl sc cnt length]. rewrite andb_true_iff, Z.eqb_eq, Z.leb_le. split.
    + intros [[H1 H2] H3]. split; [apply H3; reflexivity|exact H1].
    + intros [H1 H2]. split; [|intros _; exact H1]. split; [exact H2|].
      destruct H1 as [->|(j & _ & ->)]; [lia|]. pose proof (pow2_pos j). lia.
Qed.

Definition tlen_s (s : st) : Z := match tbl s with None => 0 | Some t => tlen t end.

(* "the counter is below the threshold unless the table cannot grow": holds in every reachable state *)
Definition sized (s : st) : Prop :=
  match tbl s with
  | None => cnt s = 0
  | Some t => cnt s < sc s \/ MAXIMUM_CAPACITY <= tlen t
  end.

Definition ent (n : node) : N * Z := (ni n, nv n).

Section TreeFacts.
Hypothesis Hyp_find : forall b h k, tb_b b = true -> t_find (troot b) h k = lb_find (tord b) h k.
Hypothesis Hyp_new : forall l, l <> [] -> nodup_keys l = true ->
  (forall a b, In a l -> In b l -> nk a = nk b -> nh a = nh b) -> tb_b (tb_new l) = true.
Hypothesis Hyp_put : forall b e, tb_b b = true -> lb_find (tord b) (nh e) (nk e) = None ->
  (forall a, In a (tord b) -> nk a <> nk e) -> tb_b (tb_put b e) = true.
Hypothesis Hyp_set : forall b h k v, tb_b b = true -> tb_b (tb_set b h k v) = true.
Hypothesis Hyp_remove : forall b h k b', tb_b b = true -> lb_find (tord b) h k <> None ->
  tb_remove b h k = (b', false) -> tb_b b' = true.

(* ------------------------------------------------------------------------------------------ *)
(** * Lookups read the node listing *)

Lemma bin_ok_hk len i b : bin_ok khash len i b -> hk_ok khash (bin_nodes b).
Proof. intros H n Hn. apply (bin_ok_placed khash _ _ _ _ H Hn). Qed.

Lemma bin_find_lookup len i b k :
  bin_ok khash len i b -> bin_find b (khash k) k = lookup (bin_nodes b) k.
Proof.
  intros H. pose proof (bin_ok_hk _ _ _ H) as Hk. destruct b as [|l|t|]; cbn [bin_find bin_nodes] in *.
  - reflexivity.
  - apply lb_find_lookup; exact Hk.
  - destruct H as [H _]. rewrite Hyp_find by exact H. apply lb_find_lookup; exact Hk.
  - destruct H.
Qed.

Lemma get_node_some_tbl t sc0 cnt0 k :
  WFT khash t ->
  get_node khash (mkSt (Some t) sc0 cnt0) k = bin_find (get_bin t (bini t (khash k))) (khash k) k.
Proof.
  intros H. pose proof (WFT_len_pos khash t H). unfold get_node. cbn [tbl].
  destruct t; [cbn [length] in *; lia|reflexivity].
Qed.

Lemma get_node_lookup s k : WFS s -> get_node khash s k = lookup (nodes s) k.
Proof.
  destruct s as [[t|] sc0 cnt0]; unfold WFS; cbn [tbl sc nodes]; [|reflexivity].
  intros [H _]. rewrite get_node_some_tbl by exact H.
  rewrite (bin_find_lookup (tlen t) (bini t (khash k))).
  - symmetry. apply (WFT_lookup khash). exact H.
  - apply (WFT_bin_ok khash); [exact H|]. apply (WFT_bini_lt khash). exact H.
Qed.

Lemma abs_lookup s k : WFS s -> abs khash s k = option_map ent (lookup (nodes s) k).
Proof. intros H. unfold abs. rewrite get_node_lookup by exact H. reflexivity. Qed.

Lemma WFS_nodup s : WFS s -> NoDup (keys (nodes s)).
Proof.
  destruct s as [[t|] sc0 cnt0]; unfold WFS; cbn [tbl nodes]; [|intros _; constructor].
  intros [(_ & _ & H) _]. exact H.
Qed.

(** ** A: iteration lists exactly what lookups find *)

Theorem nodes_lists_abs s : WF s -> lists (map entry (nodes s)) (abs khash s).
Proof.
  intros H. apply WF_iff in H as [H _]. pose proof (WFS_nodup s H) as Hd. split.
  - rewrite map_map. exact Hd.
  - intros k i v. rewrite abs_lookup by exact H. split.
    + intros Hin. apply in_map_iff in Hin as (n & E & Hn). unfold entry in E. injection E as <- <- <-.
      rewrite (lookup_in _ _ Hd Hn). reflexivity.
    + destruct (lookup (nodes s) k) as [n|] eqn:E; cbn [option_map]; [|discriminate].
      unfold ent. intros [= <- <-]. apply lookup_some in E as [E1 <-].
      apply in_map_iff. exists n. split; [reflexivity|exact E1].
Qed.

Theorem wf_len s : WF s -> cnt s = Z.of_nat (length (nodes s)).
Proof. intros H. apply WF_iff in H. apply H. Qed.

(* ------------------------------------------------------------------------------------------ *)
(** * transfer: the doubling resize *)

Lemma bin_nodes_of_list l : bin_nodes (of_list l) = l.
Proof. destruct l; reflexivity. Qed.

Lemma of_list_ok len i l :
  (forall n, In n l -> placed khash len i n) -> bin_ok khash len i (of_list l).
Proof. destruct l; cbn [of_list bin_ok]; [trivial|]. intros H. split; [discriminate|exact H]. Qed.

Lemma tb_new_ok len i l :
  l <> [] -> NoDup (keys l) -> (forall n, In n l -> placed khash len i n) ->
  bin_ok khash len i (BTree (tb_new l)).
Proof.
  intros Hne Hd Hp. cbn [bin_ok tb_new tord]. split; [|exact Hp].
  apply Hyp_new; [exact Hne|apply nodup_keys_iff; exact Hd|].
  intros a b Ha Hb E. destruct (Hp a Ha) as [-> _]. destruct (Hp b Hb) as [-> _]. rewrite E. reflexivity.
Qed.

(* one half of a split tree bin *)
Lemma half_ok len i (t : tbin) (l : list node) (untree other : bool) :
  (forall n, In n l -> placed khash len i n) -> NoDup (keys l) ->
  (untree = false -> l <> []) ->
  (other = false -> l = tord t /\ tb_b t = true) ->
  let b' := if untree then of_list l else if other then BTree (tb_new l) else BTree t in
  bin_ok khash len i b' /\ bin_nodes b' = l.
Proof.
  intros Hp Hd Hne Hoth. cbv zeta. destruct untree.
  - split; [apply of_list_ok; exact Hp|apply bin_nodes_of_list].
  - destruct other.
    + split; [|reflexivity]. apply tb_new_ok; auto.
    + destruct (Hoth eq_refl) as [E Ht]. cbn [bin_ok bin_nodes]. rewrite <- E.
      split; [|reflexivity]. split; [exact Ht|exact Hp].
Qed.

Lemma split_bin_ok (j : nat) i b :
  bin_ok khash (2 ^ Z.of_nat j) i b -> NoDup (keys (bin_nodes b)) ->
  let lo := fst (split_bin (Z.to_N (2 ^ Z.of_nat j)) b) in
  let hi := snd (split_bin (Z.to_N (2 ^ Z.of_nat j)) b) in
  bin_ok khash (2 ^ Z.of_nat (S j)) i lo /\ bin_ok khash (2 ^ Z.of_nat (S j)) (i + 2 ^ j) hi /\
  Permutation (bin_nodes lo ++ bin_nodes hi) (bin_nodes b).
Proof.
  intros Hok Hd. cbv zeta. set (n := Z.to_N (2 ^ Z.of_nat j)).
  (* the two halves of any partition by the bit are placed in the doubled table *)
  assert (Hhalves : forall l lo hi,
    (forall x, In x l -> placed khash (2 ^ Z.of_nat j) i x) -> NoDup (keys l) ->
    Permutation (lo ++ hi) l ->
    (forall x, In x lo -> hbit n x = false) -> (forall x, In x hi -> hbit n x = true) ->
    (forall x, In x lo -> placed khash (2 ^ Z.of_nat (S j)) i x) /\
    (forall x, In x hi -> placed khash (2 ^ Z.of_nat (S j)) (i + 2 ^ j) x) /\
    NoDup (keys lo) /\ NoDup (keys hi)).
  { intros l lo hi Hp Hdl Hperm Hlo Hhi.
    assert (Hd' : NoDup (keys (lo ++ hi))).
    { eapply Permutation_NoDup; [apply Permutation_sym, keys_perm; exact Hperm|exact Hdl]. }
    rewrite keys_app in Hd'. apply NoDup_app_iff in Hd' as (D1 & D2 & _).
    split; [|split; [|split; assumption]].
    - intros x Hx. assert (Hin : In x l).
      { eapply Permutation_in; [exact Hperm|]. apply in_or_app; left; exact Hx. }
      pose proof (placed_split khash j i x (Hp x Hin)) as P. fold n in P. rewrite (Hlo x Hx) in P. exact P.
    - intros x Hx. assert (Hin : In x l).
      { eapply Permutation_in; [exact Hperm|]. apply in_or_app; right; exact Hx. }
      pose proof (placed_split khash j i x (Hp x Hin)) as P. fold n in P. rewrite (Hhi x Hx) in P. exact P. }
  destruct b as [|l|t|]; cbn [split_bin bin_ok bin_nodes] in *.
  - cbn [fst snd bin_ok bin_nodes app]. split; [trivial|]. split; [trivial|constructor].
  - destruct Hok as [Hne Hp]. destruct (lb_split n l) as [lo hi] eqn:E.
    apply lb_split_spec in E as (Hperm & Hlo & Hhi).
    destruct (Hhalves l lo hi Hp Hd Hperm Hlo Hhi) as (P1 & P2 & _ & _).
    cbn [fst snd]. rewrite !bin_nodes_of_list.
    split; [apply of_list_ok; exact P1|]. split; [apply of_list_ok; exact P2|exact Hperm].
  - destruct Hok as [Ht Hp]. destruct (ord_split n (tord t)) as [lo hi] eqn:E.
    apply ord_split_spec in E as (Hperm & Hlo & Hhi & Hhi0 & Hlo0).
    destruct (Hhalves (tord t) lo hi Hp Hd Hperm Hlo Hhi) as (P1 & P2 & D1 & D2).
    cbn [fst snd].
    destruct (half_ok (2 ^ Z.of_nat (S j)) i t lo
                (split_untreeify_low (Z.of_nat (length lo))) (negb (Z.of_nat (length hi) =? 0)))
      as [A1 A2]; [exact P1|exact D1| | |].
    { unfold split_untreeify_low, UNTREEIFY_THRESHOLD. intros C ->. cbn [length] in C. discriminate. }
    { intros C. apply negb_false_iff, Z.eqb_eq in C. split; [|exact Ht]. apply Hhi0.
      destruct hi; [reflexivity|]. cbn [length] in C. lia. }
    destruct (half_ok (2 ^ Z.of_nat (S j)) (i + 2 ^ j) t hi
                (split_untreeify_high (Z.of_nat (length hi))) (negb (Z.of_nat (length lo) =? 0)))
      as [B1 B2]; [exact P2|exact D2| | |].
    { unfold split_untreeify_high, UNTREEIFY_THRESHOLD. intros C ->. cbn [length] in C. discriminate. }
    { intros C. apply negb_false_iff, Z.eqb_eq in C. split; [|exact Ht]. apply Hlo0.
      destruct lo; [reflexivity|]. cbn [length] in C. lia. }
    split; [exact A1|]. split; [exact B1|]. rewrite A2, B2. exact Hperm.
  - destruct Hok.
Qed.

Lemma flat_map_map {A B C} (f : B -> list C) (g : A -> B) l :
  flat_map f (map g l) = flat_map (fun x => f (g x)) l.
Proof. induction l as [|a l IH]; cbn [map flat_map]; [reflexivity|]. rewrite IH. reflexivity. Qed.

Lemma flat_map_perm2 {A B} (f g h : A -> list B) l :
  (forall a, In a l -> Permutation (f a ++ g a) (h a)) ->
  Permutation (flat_map f l ++ flat_map g l) (flat_map h l).
Proof.
  induction l as [|a l IH]; intros H; cbn [flat_map]; [constructor|].
  rewrite <- app_assoc.
  etransitivity; [apply Permutation_app_head, Permutation_app_swap_app|].
  rewrite app_assoc. apply Permutation_app.
  - apply H. left; reflexivity.
  - apply IH. intros b Hb. apply H. right; exact Hb.
Qed.

Lemma WFT_bin_nodup t i b :
  WFT khash t -> nth_error t i = Some b -> NoDup (keys (bin_nodes b)).
Proof.
  intros H Hi. assert (Hlt : (i < length t)%nat) by (apply nth_error_Some; congruence).
  pose proof (WFT_rest_nodup khash t i H Hlt) as Hd. rewrite keys_app in Hd.
  apply NoDup_app_iff in Hd as [Hd _]. rewrite get_bin_nth_error in Hi by exact Hlt.
  injection Hi as <-. exact Hd.
Qed.

Lemma transfer_all_ok t :
  WFT khash t -> tlen t < MAXIMUM_CAPACITY ->
  WFT khash (transfer_all t) /\
  Permutation (flat_map bin_nodes t) (flat_map bin_nodes (transfer_all t)) /\
  tlen (transfer_all t) = 2 * tlen t.
Proof.
  intros H Hlt. pose proof H as ((j & Hj & E) & Hb & Hd).
  pose proof (tlen_pow2 t j E) as El. rewrite MAXIMUM_CAPACITY_eq in Hlt.
  assert (Hj' : (j < 30)%nat).
  { rewrite El in Hlt. change 30 with (Z.of_nat 30) in Hlt. apply Z.pow_lt_mono_r_iff in Hlt; lia. }
  unfold transfer_all. rewrite El. set (n := Z.to_N (2 ^ Z.of_nat j)).
  set (parts := map (split_bin n) t).
  assert (Elen : length (map fst parts ++ map snd parts) = (2 ^ S j)%nat).
  { unfold parts. rewrite app_length, !map_length, E. cbn [Nat.pow]. lia. }
  assert (Etl : tlen (map fst parts ++ map snd parts) = 2 ^ Z.of_nat (S j)).
  { apply tlen_pow2. exact Elen. }
  assert (Hperm : Permutation (flat_map bin_nodes t)
                              (flat_map bin_nodes (map fst parts ++ map snd parts))).
  { rewrite flat_map_app. unfold parts. rewrite !map_map, !flat_map_map. apply Permutation_sym.
    apply flat_map_perm2. intros b Hin. apply In_nth_error in Hin as [i Hi].
    pose proof (Hb i b Hi) as Hok. rewrite El in Hok.
    apply (split_bin_ok j i b Hok (WFT_bin_nodup t i b H Hi)). }
  split; [|split].
  - split; [|split].
    + exists (S j). split; [lia|exact Elen].
    + intros i b Hi. rewrite Etl.
      destruct (Nat.lt_ge_cases i (length t)) as [Hlo|Hhi].
      * rewrite nth_error_app1 in Hi by (unfold parts; rewrite !map_length; exact Hlo).
        unfold parts in Hi. rewrite map_map, nth_error_map in Hi.
        destruct (nth_error t i) as [b0|] eqn:Hi0; [|discriminate]. injection Hi as <-.
        pose proof (Hb i b0 Hi0) as Hok. rewrite El in Hok.
        apply (split_bin_ok j i b0 Hok (WFT_bin_nodup t i b0 H Hi0)).
      * rewrite nth_error_app2 in Hi by (unfold parts; rewrite !map_length; exact Hhi).
        unfold parts in Hi. rewrite !map_length in Hi. rewrite map_map, nth_error_map in Hi.
        destruct (nth_error t (i - length t)) as [b0|] eqn:Hi0; [|discriminate]. injection Hi as <-.
        pose proof (Hb _ b0 Hi0) as Hok. rewrite El in Hok.
        replace i with (i - length t + 2 ^ j)%nat at 1 by lia.
        apply (split_bin_ok j _ b0 Hok (WFT_bin_nodup t _ b0 H Hi0)).
    + eapply Permutation_NoDup; [apply keys_perm; exact Hperm|exact Hd].
  - exact Hperm.
  - rewrite Etl, Nat2Z.inj_succ, Z.pow_succ_r by lia. reflexivity.
Qed.

End TreeFacts.
End WithHash.
