(* Sequential refinement (C02, C05, C14, C18): the single-threaded model of Model/Seq.v refines the
   abstract map of Model/Spec.v and keeps the well-formedness of Model/WF.v.
   The facts about red-black tree bins that are used are hypotheses of Section TreeFacts
   (they are proved in Proofs/RBProofs.v); list and table lemmas are in Proofs/SeqLemmas.v. *)
From Flurry Require Import Model.Spec Proofs.ArithProofs Proofs.SeqLemmas.
From Coq Require Import Permutation Lia ZArith NArith List Bool.
Import ListNotations.
Open Scope Z_scope.
Ltac Zify.zify_post_hook ::= Z.div_mod_to_equations.

Arguments N.land : simpl never.
Arguments N.ones : simpl never.
Arguments N.pow : simpl never.
Arguments Z.pow : simpl never.
Arguments N.testbit : simpl never.
Arguments Z.of_nat : simpl never.
Arguments Z.to_N : simpl never.

(* ------------------------------------------------------------------------------------------ *)
(** * Arithmetic of the regenerated definitions, in the form used below *)

Lemma lf_pos n : 1 <= n -> 1 <= load_factor n.
Proof. intros H. rewrite load_factor_eq. lia. Qed.

Lemma lf_double n : 0 <= n -> load_factor n <= load_factor (2 * n).
Proof. intros H. rewrite !load_factor_eq. lia. Qed.

Lemma next_threshold_pow2 (j : nat) :
  (j < 30)%nat -> next_threshold (2 ^ Z.of_nat j) = load_factor (2 * 2 ^ Z.of_nat j).
Proof.
  intros Hj. assert (Hb : 0 <= 2 ^ Z.of_nat j < 2 ^ 61).
  { split; [apply Z.pow_nonneg; lia|]. apply Z.pow_lt_mono_r; lia. }
  destruct (next_threshold_eq (2 ^ Z.of_nat j) Hb) as [E1 E2].
  - destruct j as [|j]; [right; reflexivity|left].
    rewrite Nat2Z.inj_succ, Z.pow_succ_r by lia. rewrite Z.even_mul. reflexivity.
  - rewrite E1, E2. reflexivity.
Qed.

(* both capacity roundings yield a legal table length, whatever the argument *)
Lemma capacity_round_pow2 c :
  exists j : nat, (j <= 30)%nat /\ capacity_round_try_presize c = 2 ^ Z.of_nat j.
Proof.
  unfold capacity_round_try_presize. rewrite MAXIMUM_CAPACITY_eq.
  destruct (Z.geb_spec c (2 ^ 30 / 2)).
  - exists 30%nat. split; [lia|reflexivity].
  - cbv zeta. destruct (next_pow2_is_pow2 (c + Z.shiftr c 1 + 1)) as (j & Hj & E).
    rewrite E. destruct (Z.le_gt_cases (2 ^ j) (2 ^ 30)) as [Hle|Hgt].
    + rewrite Z.min_r by assumption. exists (Z.to_nat j). rewrite Z2Nat.id by exact Hj.
      split; [|reflexivity]. apply Z.pow_le_mono_r_iff in Hle; lia.
    + rewrite Z.min_l by lia. exists 30%nat. split; [lia|reflexivity].
Qed.

Lemma pow2_max (a b : nat) : Z.max (2 ^ Z.of_nat a) (2 ^ Z.of_nat b) = 2 ^ Z.of_nat (Nat.max a b).
Proof.
  destruct (Nat.le_ge_cases a b) as [H|H].
  - rewrite Nat.max_r by exact H. apply Z.max_r. apply Z.pow_le_mono_r; lia.
  - rewrite Nat.max_l by exact H. apply Z.max_l. apply Z.pow_le_mono_r; lia.
Qed.

Lemma pow2_pos (j : nat) : 1 <= 2 ^ Z.of_nat j.
Proof. pose proof (Z.pow_pos_nonneg 2 (Z.of_nat j)). lia. Qed.

(* ------------------------------------------------------------------------------------------ *)
Section WithHash.
Variable khash : N -> N.
Variable remap : N -> N -> Z -> option Z.
Variable keep : N -> N -> Z -> bool.

(** * The invariant *)

(* Model/WF.v accepts any threshold 0 <= sc for a map without table; the lazily created table has
   length sc, so sc must be a legal length (the implementation only ever has 0 there). *)
Definition none_ok (s : st) : Prop :=
  tbl s = None -> sc s = 0 \/ exists j : nat, (j <= 30)%nat /\ sc s = 2 ^ Z.of_nat j.

Definition WF (s : st) : Prop := wf_b khash s = true /\ none_ok s.

(* the part of WF that does not mention the counter *)
Definition WFS (s : st) : Prop :=
  match tbl s with
  | None => sc s = 0 \/ exists j : nat, (j <= 30)%nat /\ sc s = 2 ^ Z.of_nat j
  | Some t => WFT khash t /\ sc s = load_factor (tlen t)
  end.

Lemma WF_iff s : WF s <-> WFS s /\ cnt s = Z.of_nat (length (nodes s)).
Proof.
  destruct s as [[t|] sc0 cnt0]; unfold WF, none_ok, WFS; cbn [tbl sc cnt nodes].
  - rewrite wf_b_some. split.
    + intros [(H1 & H2 & H3) _]. tauto.
    + intros [[H1 H3] H2]. split; [tauto|discriminate].
  - unfold wf_b. cbn [tbl sc cnt length]. rewrite andb_true_iff, Z.eqb_eq, Z.leb_le. split.
    + intros [[H1 H2] H3]. split; [apply H3; reflexivity|exact H1].
    + intros [H1 H2]. split; [|intros _; exact H1]. split; [exact H2|].
      destruct H1 as [->|(j & _ & ->)]; [lia|]. pose proof (pow2_pos j). lia.
Qed.

(* with a table, or with the threshold 0 the implementation has before the first insertion,
   WF is just Model/WF.v's wf_b *)
Lemma wf_b_WF s : wf_b khash s = true -> (tbl s = None -> sc s = 0) -> WF s.
Proof. intros H1 H2. split; [exact H1|]. intros E. left. apply H2. exact E. Qed.

Definition tlen_s (s : st) : Z := match tbl s with None => 0 | Some t => tlen t end.

(* "the counter is below the threshold unless the table cannot grow": holds in every reachable state *)
Definition sized (s : st) : Prop :=
  match tbl s with
  | None => cnt s = 0
  | Some t => cnt s < sc s \/ MAXIMUM_CAPACITY <= tlen t
  end.

Definition ent (n : node) : N * Z := (ni n, nv n).

Section TreeFacts.
Hypothesis Hyp_find : forall b h k, tb_b b = true -> t_find (troot b) h k = lb_find (tord b) h k.
Hypothesis Hyp_new : forall l, l <> [] -> nodup_keys l = true ->
  (forall a b, In a l -> In b l -> nk a = nk b -> nh a = nh b) -> tb_b (tb_new l) = true.
Hypothesis Hyp_put : forall b e, tb_b b = true -> lb_find (tord b) (nh e) (nk e) = None ->
  (forall a, In a (tord b) -> nk a <> nk e) -> tb_b (tb_put b e) = true.
Hypothesis Hyp_set : forall b h k v, tb_b b = true -> tb_b (tb_set b h k v) = true.
Hypothesis Hyp_remove : forall b h k b', tb_b b = true -> lb_find (tord b) h k <> None ->
  tb_remove b h k = (b', false) -> tb_b b' = true.

(* lia generalises over hypotheses that quantify over numbers; keep the tree facts out of its sight
   so that every lemma depends only on the facts it really uses *)
Ltac lia_ :=
  try clear Hyp_find; try clear Hyp_new; try clear Hyp_put; try clear Hyp_set; try clear Hyp_remove;
  try clear remap; try clear keep; lia.

(* ------------------------------------------------------------------------------------------ *)
(** * Lookups read the node listing *)

Lemma bin_ok_hk len i b : bin_ok khash len i b -> hk_ok khash (bin_nodes b).
Proof. intros H n Hn. apply (bin_ok_placed khash _ _ _ _ H Hn). Qed.

Lemma bin_find_lookup len i b k :
  bin_ok khash len i b -> bin_find b (khash k) k = lookup (bin_nodes b) k.
Proof.
  intros H. pose proof (bin_ok_hk _ _ _ H) as Hk. destruct b as [|l|t|]; cbn [bin_find bin_nodes] in Hk |- *.
  - reflexivity.
  - apply lb_find_lookup; exact Hk.
  - destruct H as [H _]. rewrite Hyp_find by exact H. apply lb_find_lookup; exact Hk.
  - destruct H.
Qed.

Lemma get_node_some_tbl t sc0 cnt0 k :
  WFT khash t ->
  get_node khash (mkSt (Some t) sc0 cnt0) k = bin_find (get_bin t (bini t (khash k))) (khash k) k.
Proof.
  intros H. pose proof (WFT_len_pos khash t H) as Hpos. unfold get_node. cbn [tbl].
  destruct t; [cbn [length] in Hpos; inversion Hpos|reflexivity].
Qed.

Lemma get_node_lookup s k : WFS s -> get_node khash s k = lookup (nodes s) k.
Proof.
  destruct s as [[t|] sc0 cnt0]; unfold WFS; cbn [tbl sc nodes]; [|reflexivity].
  intros [H _]. rewrite get_node_some_tbl by exact H.
  rewrite (bin_find_lookup (tlen t) (bini t (khash k))).
  - symmetry. apply (WFT_lookup khash). exact H.
  - apply (WFT_bin_ok khash); [exact H|]. apply (WFT_bini_lt khash). exact H.
Qed.

Lemma abs_lookup s k : WFS s -> abs khash s k = option_map ent (lookup (nodes s) k).
Proof. intros H. unfold abs. rewrite get_node_lookup by exact H. reflexivity. Qed.

Lemma WFS_nodup s : WFS s -> NoDup (keys (nodes s)).
Proof.
  destruct s as [[t|] sc0 cnt0]; unfold WFS; cbn [tbl nodes]; [|intros _; constructor].
  intros [(_ & _ & H) _]. exact H.
Qed.

(** ** A: iteration lists exactly what lookups find *)

Theorem nodes_lists_abs s : WF s -> lists (map entry (nodes s)) (abs khash s).
Proof.
  intros H. apply WF_iff in H as [H _]. pose proof (WFS_nodup s H) as Hd. split.
  - rewrite map_map. exact Hd.
  - intros k i v. rewrite abs_lookup by exact H. split.
    + intros Hin. apply in_map_iff in Hin as (n & E & Hn). unfold entry in E. injection E as <- <- <-.
      rewrite (lookup_in _ _ Hd Hn). reflexivity.
    + destruct (lookup (nodes s) k) as [n|] eqn:E; cbn [option_map]; [|discriminate].
      unfold ent. intros [= <- <-]. apply lookup_some in E as [E1 <-].
      apply in_map_iff. exists n. split; [reflexivity|exact E1].
Qed.

Theorem wf_len s : WF s -> cnt s = Z.of_nat (length (nodes s)).
Proof. intros H. apply WF_iff in H. apply H. Qed.

(* ------------------------------------------------------------------------------------------ *)
(** * transfer: the doubling resize *)

Lemma bin_nodes_of_list l : bin_nodes (of_list l) = l.
Proof. destruct l; reflexivity. Qed.

Lemma of_list_ok len i l :
  (forall n, In n l -> placed khash len i n) -> bin_ok khash len i (of_list l).
Proof. destruct l; cbn [of_list bin_ok]; [trivial|]. intros H. split; [discriminate|exact H]. Qed.

Lemma tb_new_ok len i l :
  l <> [] -> NoDup (keys l) -> (forall n, In n l -> placed khash len i n) ->
  bin_ok khash len i (BTree (tb_new l)).
Proof.
  intros Hne Hd Hp. cbn [bin_ok tb_new tord]. split; [|exact Hp].
  apply Hyp_new; [exact Hne|apply nodup_keys_iff; exact Hd|].
  intros a b Ha Hb E. destruct (Hp a Ha) as [-> _]. destruct (Hp b Hb) as [-> _]. rewrite E. reflexivity.
Qed.

(* one half of a split tree bin *)
Lemma half_ok len i (t : tbin) (l : list node) (untree other : bool) :
  (forall n, In n l -> placed khash len i n) -> NoDup (keys l) ->
  (untree = false -> l <> []) ->
  (other = false -> l = tord t /\ tb_b t = true) ->
  let b' := if untree then of_list l else if other then BTree (tb_new l) else BTree t in
  bin_ok khash len i b' /\ bin_nodes b' = l.
Proof.
  intros Hp Hd Hne Hoth. cbv zeta. destruct untree.
  - split; [apply of_list_ok; exact Hp|apply bin_nodes_of_list].
  - destruct other.
    + split; [|reflexivity]. apply tb_new_ok; auto.
    + destruct (Hoth eq_refl) as [E Ht]. cbn [bin_ok bin_nodes]. rewrite <- E.
      split; [|reflexivity]. split; [exact Ht|exact Hp].
Qed.

Lemma split_bin_ok (j : nat) i b :
  bin_ok khash (2 ^ Z.of_nat j) i b -> NoDup (keys (bin_nodes b)) ->
  let lo := fst (split_bin (Z.to_N (2 ^ Z.of_nat j)) b) in
  let hi := snd (split_bin (Z.to_N (2 ^ Z.of_nat j)) b) in
  bin_ok khash (2 ^ Z.of_nat (S j)) i lo /\ bin_ok khash (2 ^ Z.of_nat (S j)) (i + 2 ^ j) hi /\
  Permutation (bin_nodes lo ++ bin_nodes hi) (bin_nodes b).
Proof.
  intros Hok Hd. cbv zeta. set (n := Z.to_N (2 ^ Z.of_nat j)).
  (* the two halves of any partition by the bit are placed in the doubled table *)
  assert (Hhalves : forall l lo hi,
    (forall x, In x l -> placed khash (2 ^ Z.of_nat j) i x) -> NoDup (keys l) ->
    Permutation (lo ++ hi) l ->
    (forall x, In x lo -> hbit n x = false) -> (forall x, In x hi -> hbit n x = true) ->
    (forall x, In x lo -> placed khash (2 ^ Z.of_nat (S j)) i x) /\
    (forall x, In x hi -> placed khash (2 ^ Z.of_nat (S j)) (i + 2 ^ j) x) /\
    NoDup (keys lo) /\ NoDup (keys hi)).
  { intros l lo hi Hp Hdl Hperm Hlo Hhi.
    assert (Hd' : NoDup (keys (lo ++ hi))).
    { eapply Permutation_NoDup; [apply Permutation_sym, keys_perm; exact Hperm|exact Hdl]. }
    rewrite keys_app in Hd'. apply NoDup_app_iff in Hd' as (D1 & D2 & _).
    split; [|split; [|split; assumption]].
    - intros x Hx. assert (Hin : In x l).
      { eapply Permutation_in; [exact Hperm|]. apply in_or_app; left; exact Hx. }
      pose proof (placed_split khash j i x (Hp x Hin)) as P. fold n in P. rewrite (Hlo x Hx) in P. exact P.
    - intros x Hx. assert (Hin : In x l).
      { eapply Permutation_in; [exact Hperm|]. apply in_or_app; right; exact Hx. }
      pose proof (placed_split khash j i x (Hp x Hin)) as P. fold n in P. rewrite (Hhi x Hx) in P. exact P. }
  destruct b as [|l|t|]; cbn [split_bin bin_ok bin_nodes] in Hok, Hd |- *.
  - cbn [fst snd bin_ok bin_nodes app]. split; [trivial|]. split; [trivial|constructor].
  - destruct Hok as [Hne Hp]. destruct (lb_split n l) as [lo hi] eqn:E.
    apply lb_split_spec in E as (Hperm & Hlo & Hhi).
    destruct (Hhalves l lo hi Hp Hd Hperm Hlo Hhi) as (P1 & P2 & _ & _).
    cbn [fst snd]. rewrite !bin_nodes_of_list.
    split; [apply of_list_ok; exact P1|]. split; [apply of_list_ok; exact P2|exact Hperm].
  - destruct Hok as [Ht Hp]. destruct (ord_split n (tord t)) as [lo hi] eqn:E.
    apply ord_split_spec in E as (Hperm & Hlo & Hhi & Hhi0 & Hlo0).
    destruct (Hhalves (tord t) lo hi Hp Hd Hperm Hlo Hhi) as (P1 & P2 & D1 & D2).
    cbn [fst snd].
    destruct (half_ok (2 ^ Z.of_nat (S j)) i t lo
                (split_untreeify_low (Z.of_nat (length lo))) (negb (Z.of_nat (length hi) =? 0)))
      as [A1 A2]; [exact P1|exact D1| | |].
    { unfold split_untreeify_low, UNTREEIFY_THRESHOLD. intros C ->. cbn [length] in C. discriminate. }
    { intros C. apply negb_false_iff, Z.eqb_eq in C. split; [|exact Ht]. apply Hhi0.
      destruct hi; [reflexivity|]. cbn [length] in C. lia_. }
    destruct (half_ok (2 ^ Z.of_nat (S j)) (i + 2 ^ j) t hi
                (split_untreeify_high (Z.of_nat (length hi))) (negb (Z.of_nat (length lo) =? 0)))
      as [B1 B2]; [exact P2|exact D2| | |].
    { unfold split_untreeify_high, UNTREEIFY_THRESHOLD. intros C ->. cbn [length] in C. discriminate. }
    { intros C. apply negb_false_iff, Z.eqb_eq in C. split; [|exact Ht]. apply Hlo0.
      destruct lo; [reflexivity|]. cbn [length] in C. lia_. }
    split; [exact A1|]. split; [exact B1|]. rewrite A2, B2. exact Hperm.
  - destruct Hok.
Qed.

Lemma flat_map_map {A B C} (f : B -> list C) (g : A -> B) l :
  flat_map f (map g l) = flat_map (fun x => f (g x)) l.
Proof. induction l as [|a l IH]; cbn [map flat_map]; [reflexivity|]. rewrite IH. reflexivity. Qed.

Lemma flat_map_perm2 {A B} (f g h : A -> list B) l :
  (forall a, In a l -> Permutation (f a ++ g a) (h a)) ->
  Permutation (flat_map f l ++ flat_map g l) (flat_map h l).
Proof.
  induction l as [|a l IH]; intros H; cbn [flat_map]; [constructor|].
  rewrite <- app_assoc.
  etransitivity; [apply Permutation_app_head, Permutation_app_swap_app|].
  rewrite app_assoc. apply Permutation_app.
  - apply H. left; reflexivity.
  - apply IH. intros b Hb. apply H. right; exact Hb.
Qed.

Lemma WFT_bin_nodup t i b :
  WFT khash t -> nth_error t i = Some b -> NoDup (keys (bin_nodes b)).
Proof.
  intros H Hi. assert (Hlt : (i < length t)%nat) by (apply nth_error_Some; congruence).
  pose proof (WFT_rest_nodup khash t i H Hlt) as Hd. rewrite keys_app in Hd.
  apply NoDup_app_iff in Hd as [Hd _]. rewrite get_bin_nth_error in Hi by exact Hlt.
  injection Hi as <-. exact Hd.
Qed.

Lemma transfer_all_ok t :
  WFT khash t -> tlen t < MAXIMUM_CAPACITY ->
  WFT khash (transfer_all t) /\
  Permutation (flat_map bin_nodes t) (flat_map bin_nodes (transfer_all t)) /\
  tlen (transfer_all t) = 2 * tlen t.
Proof.
  intros H Hlt. pose proof H as ((j & Hj & E) & Hb & Hd).
  pose proof (tlen_pow2 t j E) as El. rewrite MAXIMUM_CAPACITY_eq in Hlt.
  assert (Hj' : (j < 30)%nat).
  { rewrite El in Hlt. change 30 with (Z.of_nat 30) in Hlt. apply Z.pow_lt_mono_r_iff in Hlt; lia_. }
  unfold transfer_all. rewrite El. set (n := Z.to_N (2 ^ Z.of_nat j)).
  set (parts := map (split_bin n) t).
  assert (Elen : length (map fst parts ++ map snd parts) = (2 ^ S j)%nat).
  { unfold parts. rewrite app_length, !map_length, E. cbn [Nat.pow]. lia_. }
  assert (Etl : tlen (map fst parts ++ map snd parts) = 2 ^ Z.of_nat (S j)).
  { apply tlen_pow2. exact Elen. }
  assert (Hperm : Permutation (flat_map bin_nodes t)
                              (flat_map bin_nodes (map fst parts ++ map snd parts))).
  { rewrite flat_map_app. unfold parts. rewrite !map_map, !flat_map_map. apply Permutation_sym.
    apply flat_map_perm2. intros b Hin. apply In_nth_error in Hin as [i Hi].
    pose proof (Hb i b Hi) as Hok. rewrite El in Hok.
    apply (split_bin_ok j i b Hok (WFT_bin_nodup t i b H Hi)). }
  split; [|split].
  - split; [|split].
    + exists (S j). split; [lia_|exact Elen].
    + intros i b Hi. rewrite Etl.
      destruct (Nat.lt_ge_cases i (length t)) as [Hlo|Hhi].
      * rewrite nth_error_app1 in Hi by (unfold parts; rewrite !map_length; exact Hlo).
        unfold parts in Hi. rewrite map_map, nth_error_map in Hi.
        destruct (nth_error t i) as [b0|] eqn:Hi0; [|discriminate]. injection Hi as <-.
        pose proof (Hb i b0 Hi0) as Hok. rewrite El in Hok.
        apply (split_bin_ok j i b0 Hok (WFT_bin_nodup t i b0 H Hi0)).
      * rewrite nth_error_app2 in Hi by (unfold parts; rewrite !map_length; exact Hhi).
        unfold parts in Hi. rewrite !map_length in Hi. rewrite map_map, nth_error_map in Hi.
        destruct (nth_error t (i - length t)) as [b0|] eqn:Hi0; [|discriminate]. injection Hi as <-.
        pose proof (Hb _ b0 Hi0) as Hok. rewrite El in Hok.
        replace i with (i - length t + 2 ^ j)%nat at 1 by lia_.
        apply (split_bin_ok j _ b0 Hok (WFT_bin_nodup t _ b0 H Hi0)).
    + eapply Permutation_NoDup; [apply keys_perm; exact Hperm|exact Hd].
  - exact Hperm.
  - rewrite Etl, Nat2Z.inj_succ, Z.pow_succ_r by lia_. reflexivity.
Qed.

(* ------------------------------------------------------------------------------------------ *)
(** * Resizing: resize_once, grow_loop, presize_loop, treeify_bin, add_count *)

Lemma WFT_tlen_pow2 t : WFT khash t -> exists j : nat, (j <= 30)%nat /\ tlen t = 2 ^ Z.of_nat j.
Proof. intros ((j & Hj & E) & _). exists j. split; [exact Hj|apply tlen_pow2; exact E]. Qed.

(* s' has the same content as s in a table at least as long; the counter is untouched *)
Definition grows (s s' : st) : Prop :=
  WFS s' /\ Permutation (nodes s) (nodes s') /\ cnt s' = cnt s /\ tlen_s s <= tlen_s s' /\
  (sized s -> sized s').

Lemma grows_refl s : WFS s -> grows s s.
Proof. intros H. split; [exact H|]. split; [reflexivity|]. split; [reflexivity|]. split; [lia_|tauto]. Qed.

Lemma grows_trans a b c : grows a b -> grows b c -> grows a c.
Proof.
  intros (A1 & A2 & A3 & A4 & A5) (B1 & B2 & B3 & B4 & B5).
  split; [exact B1|]. split; [etransitivity; eassumption|]. split; [congruence|]. split; [lia_|tauto].
Qed.

Lemma grows_lookup s s' k : WFS s -> grows s s' -> lookup (nodes s') k = lookup (nodes s) k.
Proof.
  intros H (_ & Hp & _). symmetry. apply lookup_perm; [apply WFS_nodup; exact H|exact Hp].
Qed.

Lemma grows_length s s' : grows s s' -> length (nodes s') = length (nodes s).
Proof. intros (_ & Hp & _). symmetry. apply Permutation_length. exact Hp. Qed.

Lemma resize_once_grows s t :
  WFS s -> tbl s = Some t -> tlen t < MAXIMUM_CAPACITY -> grows s (resize_once s).
Proof.
  intros H Et Hlt. unfold resize_once. rewrite Et. unfold WFS in H. rewrite Et in H.
  destruct H as [Ht Hsc]. destruct (transfer_all_ok t Ht Hlt) as (T1 & T2 & T3).
  destruct (WFT_tlen_pow2 t Ht) as (j & Hj & Ej).
  assert (Hj' : (j < 30)%nat).
  { rewrite MAXIMUM_CAPACITY_eq, Ej in Hlt. change 30 with (Z.of_nat 30) in Hlt.
    apply Z.pow_lt_mono_r_iff in Hlt; lia_. }
  unfold grows, WFS, sized, tlen_s, nodes. rewrite Et. cbn [tbl sc cnt].
  split; [|split; [exact T2|split; [reflexivity|split]]].
  - split; [exact T1|]. rewrite T3, Ej. apply next_threshold_pow2. exact Hj'.
  - pose proof (WFT_len_bounds khash t Ht). lia_.
  - rewrite Ej, next_threshold_pow2 by exact Hj'. rewrite Hsc, Ej.
    pose proof (lf_double (2 ^ Z.of_nat j)). pose proof (pow2_pos j). rewrite Ej in Hlt. lia_.
Qed.

Lemma grow_loop_grows fuel : forall s c, WFS s -> grows s (grow_loop fuel s c).
Proof.
  induction fuel as [|fuel IH]; intros s c H; cbn [grow_loop]; [apply grows_refl; exact H|].
  destruct (add_count_below c (sc s)); [apply grows_refl; exact H|].
  destruct (tbl s) as [t|] eqn:Et; [|apply grows_refl; exact H].
  destruct (add_count_full (tlen t)) eqn:Ef; [apply grows_refl; exact H|].
  unfold add_count_full in Ef. rewrite Z.geb_leb in Ef; apply Z.leb_gt in Ef.
  pose proof (resize_once_grows s t H Et Ef) as G.
  eapply grows_trans; [exact G|]. apply IH. apply G.
Qed.

Lemma grow_loop_below fuel s c : add_count_below c (sc s) = true -> grow_loop fuel s c = s.
Proof. intros H. destruct fuel; cbn [grow_loop]; [reflexivity|]. rewrite H. reflexivity. Qed.

Lemma grow_loop_full fuel s c t :
  tbl s = Some t -> MAXIMUM_CAPACITY <= tlen t -> grow_loop fuel s c = s.
Proof.
  intros Et H. destruct fuel; cbn [grow_loop]; [reflexivity|].
  destruct (add_count_below c (sc s)); [reflexivity|]. rewrite Et.
  unfold add_count_full. destruct (Z.geb_spec (tlen t) MAXIMUM_CAPACITY); [reflexivity|lia_].
Qed.

(* with enough fuel the loop ends below the threshold or at the maximum length *)
Lemma grow_loop_sized fuel : forall s t,
  WFS s -> tbl s = Some t -> MAXIMUM_CAPACITY < tlen t * 2 ^ Z.of_nat fuel ->
  sized (grow_loop fuel s (cnt s)).
Proof.
  induction fuel as [|fuel IH]; intros s t H Et Hf; cbn [grow_loop].
  - exfalso. unfold WFS in H. rewrite Et in H. destruct H as [Ht _].
    pose proof (WFT_len_bounds khash t Ht). change (2 ^ Z.of_nat 0) with 1 in Hf. lia_.
  - destruct (add_count_below (cnt s) (sc s)) eqn:Eb.
    { unfold add_count_below in Eb. apply Z.ltb_lt in Eb. unfold sized. rewrite Et. left; exact Eb. }
    rewrite Et. destruct (add_count_full (tlen t)) eqn:Ef.
    { unfold add_count_full in Ef. apply Z.geb_le in Ef. unfold sized. rewrite Et. right; exact Ef. }
    unfold add_count_full in Ef. rewrite Z.geb_leb in Ef; apply Z.leb_gt in Ef.
    pose proof (resize_once_grows s t H Et Ef) as G.
    assert (Er : resize_once s = mkSt (Some (transfer_all t)) (next_threshold (tlen t)) (cnt s)).
    { unfold resize_once. rewrite Et. reflexivity. }
    replace (cnt (resize_once s)) with (cnt (resize_once s)) by reflexivity.
    apply (IH (resize_once s) (transfer_all t)).
    + apply G.
    + rewrite Er. reflexivity.
    + unfold WFS in H. rewrite Et in H. destruct H as [Ht _].
      destruct (transfer_all_ok t Ht Ef) as (_ & _ & T3). rewrite T3.
      rewrite Nat2Z.inj_succ, Z.pow_succ_r in Hf by lia_. lia_.
Qed.

Lemma WFS_empty (j : nat) c0 :
  (j <= 30)%nat ->
  WFS (mkSt (Some (empty_table (2 ^ Z.of_nat j))) (load_factor (2 ^ Z.of_nat j)) c0).
Proof.
  intros Hj. unfold WFS. cbn [tbl sc]. split; [apply WFT_empty; exact Hj|].
  rewrite tlen_empty_table; [reflexivity|]. pose proof (pow2_pos j). lia_.
Qed.

Lemma presize_loop_grows fuel : forall c s,
  (exists j : nat, (j <= 30)%nat /\ c = 2 ^ Z.of_nat j) -> WFS s -> grows s (presize_loop fuel c s).
Proof.
  induction fuel as [|fuel IH]; intros c s Hc H; cbn [presize_loop]; [apply grows_refl; exact H|].
  destruct (try_presize_busy (sc s)); [apply grows_refl; exact H|].
  destruct (tbl s) as [[|b t]|] eqn:Et.
  - exfalso. unfold WFS in H. rewrite Et in H. destruct H as [Ht _].
    pose proof (WFT_len_pos khash _ Ht) as Hpos. cbn [length] in Hpos. lia_.
  - destruct (try_presize_stop c (sc s) (tlen (b :: t))) eqn:Es; [apply grows_refl; exact H|].
    unfold try_presize_stop in Es. apply orb_false_iff in Es as [_ Es].
    rewrite Z.geb_leb in Es; apply Z.leb_gt in Es.
    pose proof (resize_once_grows s (b :: t) H Et Es) as G.
    eapply grows_trans; [exact G|]. apply IH; [exact Hc|apply G].
  - assert (Hn : exists j : nat, (j <= 30)%nat /\ try_presize_new_capacity c (sc s) = 2 ^ Z.of_nat j).
    { unfold try_presize_new_capacity. destruct Hc as (j & Hj & ->).
      unfold WFS in H. rewrite Et in H. destruct H as [->|(j' & Hj' & ->)].
      - exists j. split; [exact Hj|]. pose proof (pow2_pos j). lia_.
      - exists (Nat.max j j'). split; [lia_|apply pow2_max]. }
    destruct Hn as (j & Hj & En). rewrite En. unfold try_presize_threshold.
    pose proof (WFS_empty j (cnt s) Hj) as H1.
    eapply grows_trans; [|apply IH; [exact Hc|exact H1]].
    split; [exact H1|]. unfold nodes, tlen_s, sized. rewrite Et. cbn [tbl sc cnt].
    rewrite nodes_empty_table. split; [constructor|]. split; [reflexivity|]. split.
    + rewrite tlen_empty_table; pose proof (pow2_pos j); lia_.
    + intros ->. left. pose proof (lf_pos (2 ^ Z.of_nat j) (pow2_pos j)). lia_.
Qed.

Lemma try_presize_grows s size : WFS s -> grows s (try_presize s size).
Proof. intros H. unfold try_presize. apply presize_loop_grows; [apply capacity_round_pow2|exact H]. Qed.

Lemma get_bin_lt t i : get_bin t i <> BNull -> (i < length t)%nat.
Proof.
  intros H. destruct (Nat.lt_ge_cases i (length t)) as [Hl|Hg]; [exact Hl|].
  exfalso. apply H. unfold get_bin. apply nth_overflow. exact Hg.
Qed.

Lemma treeify_bin_grows s i : WFS s -> grows s (treeify_bin s i).
Proof.
  intros H. unfold treeify_bin. destruct (tbl s) as [t|] eqn:Et; [|apply grows_refl; exact H].
  destruct (treeify_resizes (tlen t)); [apply try_presize_grows; exact H|].
  destruct (get_bin t i) as [|l| |] eqn:Eb; try (apply grows_refl; exact H).
  assert (Hi : (i < length t)%nat) by (apply get_bin_lt; congruence).
  pose proof H as H0. unfold WFS in H0. rewrite Et in H0. destruct H0 as [Ht Hsc].
  pose proof (WFT_bin_ok khash t i Ht Hi) as Hok. rewrite Eb in Hok. destruct Hok as [Hne Hp].
  pose proof (WFT_rest_nodup khash t i Ht Hi) as Hd. rewrite Eb in Hd. cbn [bin_nodes] in Hd.
  assert (Hd1 : NoDup (keys l)). { rewrite keys_app in Hd. apply NoDup_app_iff in Hd. apply Hd. }
  assert (Ht' : WFT khash (set_bin t i (BTree (tb_new l)))).
  { apply WFT_set_bin; [exact Ht|exact Hi| |exact Hd]. apply tb_new_ok; assumption. }
  unfold grows, WFS, nodes, tlen_s, sized. rewrite Et. cbn [tbl sc cnt].
  rewrite tlen_set_bin by exact Hi.
  split; [split; assumption|]. split.
  - etransitivity; [apply nodes_get_perm; exact Hi|]. rewrite Eb.
    apply Permutation_sym. apply (nodes_set_perm t i (BTree (tb_new l))).
  - split; [reflexivity|]. split; [lia_|tauto].
Qed.

Lemma add_count_grows s d hint :
  WFS s ->
  let s' := add_count s d hint in
  WFS s' /\ Permutation (nodes s) (nodes s') /\ cnt s' = cnt s + d /\ tlen_s s <= tlen_s s'.
Proof.
  intros H. cbv zeta. unfold add_count. set (s1 := mkSt (tbl s) (sc s) (add_count_stored (cnt s) d)).
  assert (H1 : WFS s1) by exact H.
  assert (E1 : cnt s1 = cnt s + d) by apply add_count_stored_eq.
  destruct hint.
  - destruct (grow_loop_grows 40 s1 (add_count_local (cnt s) d) H1) as (G1 & G2 & G3 & G4 & _).
    split; [exact G1|]. split; [exact G2|]. split; [congruence|exact G4].
  - split; [exact H1|]. split; [reflexivity|]. split; [exact E1|]. apply Z.le_refl.
Qed.

Lemma add_count_nohint_tbl s d : tbl (add_count s d false) = tbl s.
Proof. reflexivity. Qed.

Lemma add_count_sized_dec s d hint t :
  WFS s -> tbl s = Some t -> d <= 0 -> sized s -> sized (add_count s d hint).
Proof.
  intros H Et Hd Hs. unfold add_count. set (s1 := mkSt (tbl s) (sc s) (add_count_stored (cnt s) d)).
  assert (H1 : WFS s1) by exact H.
  assert (Hs1 : sized s1).
  { unfold sized in Hs |- *. unfold s1. cbn [tbl sc cnt]. rewrite add_count_stored_eq.
    rewrite Et in Hs. rewrite Et. lia_. }
  destruct hint; [|exact Hs1]. apply (grow_loop_grows 40 s1 _ H1). exact Hs1.
Qed.

Lemma add_count_sized_inc s t : WFS s -> tbl s = Some t -> sized (add_count s 1 true).
Proof.
  intros H Et. unfold add_count. set (s1 := mkSt (tbl s) (sc s) (add_count_stored (cnt s) 1)).
  assert (H1 : WFS s1) by exact H.
  change (add_count_local (cnt s) 1) with (cnt s1).
  apply (grow_loop_sized 40 s1 t H1 Et).
  unfold WFS in H. rewrite Et in H. destruct H as [Ht _].
  pose proof (WFT_len_bounds khash t Ht) as Hb. rewrite MAXIMUM_CAPACITY_eq in Hb |- *.
  change (2 ^ Z.of_nat 40) with 1099511627776. change (2 ^ 30) with 1073741824 in Hb |- *. lia_.
Qed.

(* ------------------------------------------------------------------------------------------ *)
(** * Updating one bin: effect on the node listing *)

Lemma bin_ctx t i :
  WFT khash t -> (i < length t)%nat ->
  NoDup (keys (bin_nodes (get_bin t i) ++ rest_of t i)) /\
  hk_ok khash (bin_nodes (get_bin t i)) /\
  (forall k', lookup (flat_map bin_nodes t) k' = lookup (bin_nodes (get_bin t i) ++ rest_of t i) k') /\
  length (flat_map bin_nodes t) = length (bin_nodes (get_bin t i) ++ rest_of t i).
Proof.
  intros H Hi. split; [apply (WFT_rest_nodup khash); assumption|].
  split; [apply (WFT_bin_hk_ok khash); assumption|]. split.
  - intros k'. apply lookup_perm; [apply H|apply nodes_get_perm; exact Hi].
  - apply Permutation_length, nodes_get_perm. exact Hi.
Qed.

Lemma bin_replace t i b' :
  WFT khash t -> (i < length t)%nat -> bin_ok khash (tlen t) i b' ->
  NoDup (keys (bin_nodes b' ++ rest_of t i)) ->
  WFT khash (set_bin t i b') /\
  (forall k', lookup (flat_map bin_nodes (set_bin t i b')) k' = lookup (bin_nodes b' ++ rest_of t i) k') /\
  length (flat_map bin_nodes (set_bin t i b')) = length (bin_nodes b' ++ rest_of t i).
Proof.
  intros H Hi Hok Hd. pose proof (WFT_set_bin khash t i b' H Hi Hok Hd) as H'.
  split; [exact H'|]. split.
  - intros k'. apply lookup_perm; [apply H'|apply nodes_set_perm].
  - apply Permutation_length, nodes_set_perm.
Qed.

Lemma eff_set_app X X' R k v :
  (forall k', lookup X' k' = if (k' =? k)%N then option_map (setv v) (lookup X k) else lookup X k') ->
  lookup X k <> None ->
  forall k', lookup (X' ++ R) k' =
             if (k' =? k)%N then option_map (setv v) (lookup (X ++ R) k) else lookup (X ++ R) k'.
Proof.
  intros H Hf k'. rewrite !lookup_app, H. destruct (k' =? k)%N; [|reflexivity].
  destruct (lookup X k); [reflexivity|congruence].
Qed.

Lemma eff_del_app X X' R k :
  NoDup (keys (X ++ R)) -> lookup X k <> None ->
  (forall k', lookup X' k' = if (k' =? k)%N then None else lookup X k') ->
  forall k', lookup (X' ++ R) k' = if (k' =? k)%N then None else lookup (X ++ R) k'.
Proof.
  intros Hd Hf H k'. rewrite !lookup_app, H. destruct (N.eqb_spec k' k) as [->|Hne]; [|reflexivity].
  apply lookup_none_keys. rewrite keys_app in Hd. apply NoDup_app_iff in Hd as (_ & _ & Hd).
  apply Hd. destruct (lookup X k) as [n|] eqn:E; [|congruence].
  apply lookup_some in E as [E1 <-]. apply in_map. exact E1.
Qed.

Lemma nodup_sub X X' R :
  NoDup (keys (X ++ R)) -> NoDup (keys X') -> incl (keys X') (keys X) -> NoDup (keys (X' ++ R)).
Proof.
  rewrite !keys_app, !NoDup_app_iff. intros (H1 & H2 & H3) Hd Hi.
  split; [exact Hd|]. split; [exact H2|]. intros x Hx. apply H3. apply Hi. exact Hx.
Qed.

Lemma eff_add_perm L L' e :
  NoDup (keys L) -> lookup L (nk e) = None -> Permutation L' (e :: L) ->
  NoDup (keys L') /\
  forall k', lookup L' k' = if (k' =? nk e)%N then Some e else lookup L k'.
Proof.
  intros Hd Hn Hp. assert (Hd1 : NoDup (keys (e :: L))).
  { cbn [keys map]. constructor; [apply lookup_none_keys; exact Hn|exact Hd]. }
  assert (Hd2 : NoDup (keys L')).
  { eapply Permutation_NoDup; [apply Permutation_sym, keys_perm; exact Hp|exact Hd1]. }
  split; [exact Hd2|]. intros k'. rewrite (lookup_perm L' (e :: L) k' Hd2 Hp), lookup_cons, N.eqb_sym.
  reflexivity.
Qed.

(* ---------- bin_set, bin_remove on a well-formed bin ---------- *)

Lemma placed_same len i x y : nh x = nh y -> nk x = nk y -> placed khash len i y -> placed khash len i x.
Proof. unfold placed. intros -> ->. trivial. Qed.

Lemma lb_set_placed len i l h k v :
  (forall n, In n l -> placed khash len i n) -> forall n, In n (lb_set l h k v) -> placed khash len i n.
Proof.
  intros H n Hn. apply lb_set_in in Hn as (y & Hy & E1 & E2).
  apply (placed_same len i n y E1 E2). apply H; exact Hy.
Qed.

Lemma bin_set_ok len i b k v :
  bin_ok khash len i b ->
  bin_ok khash len i (bin_set b (khash k) k v) /\
  bin_nodes (bin_set b (khash k) k v) = lb_set (bin_nodes b) (khash k) k v.
Proof.
  destruct b as [|l|t|]; cbn [bin_ok bin_set bin_nodes lb_set].
  - tauto.
  - intros [Hne Hp]. split; [|reflexivity]. split; [|apply lb_set_placed; exact Hp].
    intros E. apply Hne. apply length_zero_iff_nil. rewrite <- (lb_set_length l (khash k) k v), E. reflexivity.
  - intros [Ht Hp]. split; [|reflexivity]. split; [apply Hyp_set; exact Ht|].
    cbn [tb_set tord]. apply lb_set_placed; exact Hp.
  - tauto.
Qed.

Lemma bin_remove_ok len i b k :
  bin_ok khash len i b -> lookup (bin_nodes b) k <> None ->
  bin_ok khash len i (bin_remove b (khash k) k) /\
  bin_nodes (bin_remove b (khash k) k) = lb_remove (bin_nodes b) (khash k) k.
Proof.
  intros Hok Hf. pose proof (bin_ok_hk _ _ _ Hok) as Hk.
  destruct b as [|l|t|]; cbn [bin_ok bin_remove bin_nodes lb_remove] in Hok, Hf, Hk |- *.
  - tauto.
  - destruct Hok as [Hne Hp]. rewrite bin_nodes_of_list. split; [|reflexivity].
    apply of_list_ok. intros n Hn. apply Hp. eapply lb_remove_in; exact Hn.
  - destruct Hok as [Ht Hp]. destruct (tb_remove t (khash k) k) as [t' u] eqn:E.
    assert (Eo : tord t' = lb_remove (tord t) (khash k) k).
    { unfold tb_remove in E. destruct (lb_remove (tord t) (khash k) k) as [|x r] eqn:Er.
      - injection E as <- <-. reflexivity.
      - destruct (too_small (troot t)); injection E as <- <-; reflexivity. }
    assert (Hp' : forall n, In n (tord t') -> placed khash len i n).
    { intros n Hn. rewrite Eo in Hn. apply Hp. eapply lb_remove_in; exact Hn. }
    destruct u.
    + rewrite bin_nodes_of_list. split; [|exact Eo]. apply of_list_ok. exact Hp'.
    + cbn [bin_ok bin_nodes]. split; [|exact Eo]. split; [|exact Hp'].
      apply (Hyp_remove t (khash k) k t' Ht); [|exact E]. rewrite lb_find_lookup by exact Hk. exact Hf.
  - tauto.
Qed.

(* ---------- finishing lemmas: from one replaced bin to the whole state ---------- *)

Lemma WFS_some s t : tbl s = Some t -> WFS s <-> WFT khash t /\ sc s = load_factor (tlen t).
Proof. intros E. unfold WFS. rewrite E. tauto. Qed.

(* a value was replaced in bin i; afterwards the table may have grown *)
Lemma set_finish s t i b' k v n s2 :
  WF s -> tbl s = Some t -> (i < length t)%nat ->
  lookup (bin_nodes (get_bin t i)) k = Some n ->
  bin_ok khash (tlen t) i b' ->
  bin_nodes b' = lb_set (bin_nodes (get_bin t i)) (khash k) k v ->
  (WFS (mkSt (Some (set_bin t i b')) (sc s) (cnt s)) ->
   grows (mkSt (Some (set_bin t i b')) (sc s) (cnt s)) s2) ->
  WF s2 /\
  (forall k', lookup (nodes s2) k' = if (k' =? k)%N then Some (setv v n) else lookup (nodes s) k') /\
  lookup (nodes s) k = Some n /\
  tlen_s s <= tlen_s s2 /\ (sized s -> sized s2).
Proof.
  intros Hwf Et Hi Hf Hok Hn Hg. apply WF_iff in Hwf as [Hs Hc].
  pose proof (proj1 (WFS_some s t Et) Hs) as [Ht Hsc].
  destruct (bin_ctx t i Ht Hi) as (Hd & Hk & Hl & Hlen).
  set (X := bin_nodes (get_bin t i)) in *. set (R := rest_of t i) in *.
  assert (Hd' : NoDup (keys (bin_nodes b' ++ R))).
  { rewrite keys_app, Hn, lb_set_keys, <- keys_app. exact Hd. }
  destruct (bin_replace t i b' Ht Hi Hok Hd') as (Ht' & Hl' & Hlen'). fold R in Hl', Hlen'.
  set (s1 := mkSt (Some (set_bin t i b')) (sc s) (cnt s)) in *.
  assert (Hs1 : WFS s1).
  { unfold WFS, s1. cbn [tbl sc]. rewrite tlen_set_bin by exact Hi. split; assumption. }
  specialize (Hg Hs1).
  assert (Hfk : lookup (nodes s) k = Some n).
  { unfold nodes. rewrite Et, Hl, lookup_app. fold X. rewrite Hf. reflexivity. }
  assert (Hlk : forall k', lookup (nodes s1) k' =
                          if (k' =? k)%N then Some (setv v n) else lookup (nodes s) k').
  { intros k'. unfold nodes at 1. unfold s1 at 1. cbn [tbl]. rewrite Hl'.
    rewrite (eff_set_app X (bin_nodes b') R k v).
    - unfold nodes. rewrite Et, !Hl. fold X R. rewrite lookup_app, Hf. reflexivity.
    - intros k''. rewrite Hn. apply lb_set_lookup. exact Hk.
    - rewrite Hf. discriminate. }
  assert (Hlen1 : length (nodes s1) = length (nodes s)).
  { unfold nodes, s1. cbn [tbl]. rewrite Et, Hlen', Hlen, !app_length, Hn, lb_set_length. reflexivity. }
  split; [|split; [|split; [exact Hfk|split]]].
  - apply WF_iff. split; [apply Hg|]. rewrite (grows_length s1 s2 Hg), Hlen1.
    destruct Hg as (_ & _ & -> & _). exact Hc.
  - intros k'. rewrite (grows_lookup s1 s2 k' Hs1 Hg). apply Hlk.
  - destruct Hg as (_ & _ & _ & G & _). unfold tlen_s in G |- *. unfold s1 in G. cbn [tbl] in G.
    rewrite tlen_set_bin in G by exact Hi. rewrite Et. exact G.
  - intros Hz. apply Hg. unfold sized, s1 in Hz |- *. cbn [tbl sc cnt]. rewrite Et in Hz.
    rewrite tlen_set_bin by exact Hi. exact Hz.
Qed.

(* a fresh node was added to bin i; then the table may grow, then the counter is bumped *)
Lemma add_finish s t i b' e s2 :
  WF s -> tbl s = Some t -> (i < length t)%nat ->
  lookup (nodes s) (nk e) = None ->
  bin_ok khash (tlen t) i b' ->
  Permutation (bin_nodes b') (e :: bin_nodes (get_bin t i)) ->
  (WFS (mkSt (Some (set_bin t i b')) (sc s) (cnt s)) ->
   grows (mkSt (Some (set_bin t i b')) (sc s) (cnt s)) s2) ->
  let s3 := add_count s2 1 true in
  WF s3 /\
  (forall k', lookup (nodes s3) k' = if (k' =? nk e)%N then Some e else lookup (nodes s) k') /\
  tlen_s s <= tlen_s s3 /\ sized s3.
Proof.
  intros Hwf Et Hi Hf Hok Hp Hg. apply WF_iff in Hwf as [Hs Hc].
  pose proof (proj1 (WFS_some s t Et) Hs) as [Ht Hsc].
  destruct (bin_ctx t i Ht Hi) as (Hd & Hk & Hl & Hlen).
  set (X := bin_nodes (get_bin t i)) in *. set (R := rest_of t i) in *.
  assert (HfL : lookup (X ++ R) (nk e) = None).
  { rewrite <- Hl. unfold nodes in Hf. rewrite Et in Hf. exact Hf. }
  assert (Hp' : Permutation (bin_nodes b' ++ R) (e :: X ++ R)).
  { change (e :: X ++ R) with ((e :: X) ++ R). apply Permutation_app_tail. exact Hp. }
  destruct (eff_add_perm (X ++ R) (bin_nodes b' ++ R) e Hd HfL Hp') as [Hd' Hl1].
  destruct (bin_replace t i b' Ht Hi Hok Hd') as (Ht' & Hl' & Hlen'). fold R in Hl', Hlen'.
  set (s1 := mkSt (Some (set_bin t i b')) (sc s) (cnt s)) in *.
  assert (Hs1 : WFS s1).
  { unfold WFS, s1. cbn [tbl sc]. rewrite tlen_set_bin by exact Hi. split; assumption. }
  specialize (Hg Hs1).
  assert (Hlk : forall k', lookup (nodes s1) k' =
                          if (k' =? nk e)%N then Some e else lookup (nodes s) k').
  { intros k'. unfold nodes at 1. unfold s1 at 1. cbn [tbl]. rewrite Hl', Hl1.
    unfold nodes. rewrite Et, Hl. reflexivity. }
  assert (Hlen1 : length (nodes s1) = S (length (nodes s))).
  { unfold nodes, s1. cbn [tbl]. rewrite Et, Hlen', Hlen, (Permutation_length Hp'). reflexivity. }
  assert (Hs2 : WFS s2) by apply Hg.
  cbv zeta. destruct (add_count_grows s2 1 true Hs2) as (A1 & A2 & A3 & A4).
  split; [|split; [|split]].
  - apply WF_iff. split; [exact A1|]. rewrite A3, <- (Permutation_length A2), (grows_length s1 s2 Hg), Hlen1.
    destruct Hg as (_ & _ & -> & _). unfold s1. cbn [cnt]. lia_.
  - intros k'. rewrite <- (lookup_perm (nodes s2) _ k' (WFS_nodup s2 Hs2) A2).
    rewrite (grows_lookup s1 s2 k' Hs1 Hg). apply Hlk.
  - destruct Hg as (_ & _ & _ & G & _). unfold tlen_s in G at 1. unfold s1 in G. cbn [tbl] in G.
    rewrite tlen_set_bin in G by exact Hi. unfold tlen_s at 1. rewrite Et. lia_.
  - destruct (tbl s2) as [t2|] eqn:Et2.
    + apply (add_count_sized_inc s2 t2 Hs2 Et2).
    + exfalso. destruct Hg as (_ & _ & _ & G & _). unfold tlen_s in G. rewrite Et2 in G.
      unfold s1 in G. cbn [tbl] in G. rewrite tlen_set_bin in G by exact Hi.
      pose proof (WFT_len_bounds khash t Ht). lia_.
Qed.

(* the node with key k was removed from bin i, then the counter is decremented *)
Lemma del_finish s t i b' k n hint :
  WF s -> tbl s = Some t -> (i < length t)%nat ->
  lookup (bin_nodes (get_bin t i)) k = Some n ->
  bin_ok khash (tlen t) i b' ->
  bin_nodes b' = lb_remove (bin_nodes (get_bin t i)) (khash k) k ->
  let s2 := add_count (mkSt (Some (set_bin t i b')) (sc s) (cnt s)) (-1) hint in
  WF s2 /\
  (forall k', lookup (nodes s2) k' = if (k' =? k)%N then None else lookup (nodes s) k') /\
  lookup (nodes s) k = Some n /\
  tlen_s s <= tlen_s s2 /\ (sized s -> sized s2) /\ (hint = false -> tlen_s s2 = tlen_s s).
Proof.
  intros Hwf Et Hi Hf Hok Hn. apply WF_iff in Hwf as [Hs Hc].
  pose proof (proj1 (WFS_some s t Et) Hs) as [Ht Hsc].
  destruct (bin_ctx t i Ht Hi) as (Hd & Hk & Hl & Hlen).
  set (X := bin_nodes (get_bin t i)) in *. set (R := rest_of t i) in *.
  assert (HdX : NoDup (keys X)). { rewrite keys_app in Hd. apply NoDup_app_iff in Hd. apply Hd. }
  assert (Hd' : NoDup (keys (bin_nodes b' ++ R))).
  { apply (nodup_sub X); [exact Hd|rewrite Hn; apply lb_remove_nodup; exact HdX|].
    intros x Hx. rewrite Hn in Hx. apply in_map_iff in Hx as (y & <- & Hy). apply in_map.
    eapply lb_remove_in; exact Hy. }
  destruct (bin_replace t i b' Ht Hi Hok Hd') as (Ht' & Hl' & Hlen'). fold R in Hl', Hlen'.
  set (s1 := mkSt (Some (set_bin t i b')) (sc s) (cnt s)) in *.
  assert (Hs1 : WFS s1).
  { unfold WFS, s1. cbn [tbl sc]. rewrite tlen_set_bin by exact Hi. split; assumption. }
  assert (Hfk : lookup (nodes s) k = Some n).
  { unfold nodes. rewrite Et, Hl, lookup_app. fold X. rewrite Hf. reflexivity. }
  assert (Hlk : forall k', lookup (nodes s1) k' = if (k' =? k)%N then None else lookup (nodes s) k').
  { intros k'. unfold nodes at 1. unfold s1 at 1. cbn [tbl]. rewrite Hl'.
    rewrite (eff_del_app X (bin_nodes b') R k).
    - unfold nodes. rewrite Et, Hl. reflexivity.
    - exact Hd.
    - rewrite Hf. discriminate.
    - intros k''. rewrite Hn. apply lb_remove_lookup; assumption. }
  assert (Hlen1 : S (length (nodes s1)) = length (nodes s)).
  { unfold nodes, s1. cbn [tbl]. rewrite Et, Hlen', Hlen, !app_length, Hn.
    rewrite <- (lb_remove_length X (khash k) k); [reflexivity|].
    rewrite lb_find_lookup by exact Hk. rewrite Hf. discriminate. }
  cbv zeta. destruct (add_count_grows s1 (-1) hint Hs1) as (A1 & A2 & A3 & A4).
  split; [|split; [|split; [exact Hfk|split; [|split]]]].
  - apply WF_iff. split; [exact A1|]. rewrite A3, <- (Permutation_length A2). unfold s1 at 1. cbn [cnt]. lia_.
  - intros k'. rewrite <- (lookup_perm (nodes s1) _ k' (WFS_nodup s1 Hs1) A2). apply Hlk.
  - unfold tlen_s in A4 at 1. unfold s1 in A4 at 1. cbn [tbl] in A4.
    rewrite tlen_set_bin in A4 by exact Hi. unfold tlen_s at 1. rewrite Et. exact A4.
  - intros Hz. apply (add_count_sized_dec s1 (-1) hint (set_bin t i b') Hs1 eq_refl); [lia_|].
    unfold sized, s1 in Hz |- *. cbn [tbl sc cnt]. rewrite Et in Hz. rewrite tlen_set_bin by exact Hi. exact Hz.
  - intros ->. unfold tlen_s. rewrite add_count_nohint_tbl. unfold s1. cbn [tbl]. rewrite Et.
    apply tlen_set_bin. exact Hi.
Qed.

(* ------------------------------------------------------------------------------------------ *)
(** * The operations *)

Lemma WF_WFS s : WF s -> WFS s.
Proof. intros H. apply WF_iff in H. apply H. Qed.

Lemma abs_wf s k : WF s -> abs khash s k = option_map ent (lookup (nodes s) k).
Proof. intros H. apply abs_lookup. apply WF_WFS. exact H. Qed.

Lemma WF_some s t : WF s -> tbl s = Some t -> WFT khash t.
Proof. intros H E. apply WF_WFS in H. apply (WFS_some s t E) in H. apply H. Qed.

(* in a state with a table, a lookup reads the bin selected by the hash *)
Lemma lookup_bin s t k :
  WF s -> tbl s = Some t ->
  lookup (nodes s) k = lookup (bin_nodes (get_bin t (bini t (khash k)))) k.
Proof. intros H E. unfold nodes. rewrite E. apply (WFT_lookup khash). apply (WF_some s t H E). Qed.

Lemma init_table_ok s :
  WF s ->
  WF (init_table s) /\ nodes (init_table s) = nodes s /\ (exists t, tbl (init_table s) = Some t) /\
  (tbl s <> None -> init_table s = s) /\ tlen_s s <= tlen_s (init_table s) /\
  (sized s -> sized (init_table s)).
Proof.
  intros H. unfold init_table. destruct (tbl s) as [[|b t]|] eqn:Et.
  - exfalso. pose proof (WFT_len_pos khash _ (WF_some s [] H Et)) as Hpos. cbn [length] in Hpos. lia_.
  - split; [exact H|]. split; [reflexivity|]. split; [exists (b :: t); exact Et|].
    split; [reflexivity|]. split; [lia_|tauto].
  - pose proof H as H0. apply WF_iff in H0 as [Hs Hc]. unfold WFS in Hs. rewrite Et in Hs.
    unfold nodes in Hc. rewrite Et in Hc. cbn [length] in Hc.
    assert (Hn : exists j : nat, (j <= 30)%nat /\ init_table_n (sc s) = 2 ^ Z.of_nat j).
    { unfold init_table_n, DEFAULT_CAPACITY. destruct Hs as [->|(j & Hj & ->)].
      - exists 4%nat. split; [lia_|reflexivity].
      - exists j. split; [exact Hj|]. pose proof (pow2_pos j).
        destruct (Z.gtb_spec (2 ^ Z.of_nat j) 0); [reflexivity|lia_]. }
    destruct Hn as (j & Hj & En). rewrite En. unfold init_table_sc.
    pose proof (WFS_empty j (cnt s) Hj) as H1.
    split; [|split; [|split; [|split; [|split]]]].
    + apply WF_iff. split; [exact H1|]. unfold nodes. cbn [tbl cnt]. rewrite nodes_empty_table. exact Hc.
    + unfold nodes. cbn [tbl]. rewrite Et. apply nodes_empty_table.
    + eexists; reflexivity.
    + congruence.
    + unfold tlen_s. rewrite Et. cbn [tbl]. unfold tlen. lia_.
    + intros _. unfold sized. cbn [tbl sc cnt]. left. pose proof (lf_pos _ (pow2_pos j)). lia_.
Qed.

Definition put_abs (m : amap) (k i : N) (v : Z) (nr : bool) : amap :=
  match m k with
  | Some (i0, _) => if nr then m else aupd m k (i0, v)
  | None => aupd m k (i, v)
  end.
Definition put_out (m : amap) (k : N) (v : Z) (nr : bool) : outcome :=
  match m k with
  | Some (_, v0) => if nr then OExists v0 v else OVal v0
  | None => if nr then OInserted v else ONone
  end.

(* what every operation lemma establishes *)
Definition good (s0 : st) (r : st * outcome) (m' : amap) (out : outcome) : Prop :=
  WF (fst r) /\ (forall k, abs khash (fst r) k = m' k) /\ snd r = out /\
  tlen_s s0 <= tlen_s (fst r) /\ (sized s0 -> sized (fst r)).

Lemma placed_new t k i v :
  placed khash (tlen t) (bini t (khash k)) (N_ (khash k) k i v).
Proof. split; reflexivity. Qed.

Lemma put_ok s0 k i v nr :
  WF s0 -> good s0 (put khash s0 k i v nr) (put_abs (abs khash s0) k i v nr) (put_out (abs khash s0) k v nr).
Proof.
  intros H0. destruct (init_table_ok s0 H0) as (H & Hnodes & (t & Et) & _ & Hlen0 & Hsz0).
  assert (Habs0 : forall k', abs khash s0 k' = abs khash (init_table s0) k').
  { intros k'. rewrite !abs_wf by assumption. rewrite Hnodes. reflexivity. }
  unfold put. set (s := init_table s0) in *. rewrite Et.
  set (h := khash k). set (i0 := bini t h).
  pose proof (WF_some s t H Et) as Ht.
  assert (Hi : (i0 < length t)%nat) by apply (WFT_bini_lt khash t h Ht).
  pose proof (WFT_bin_ok khash t i0 Ht Hi) as Hok.
  pose proof (bin_ok_hk _ _ _ Hok) as Hk.
  pose proof (lookup_bin s t k H Et) as Hlb. fold h i0 in Hlb.
  set (e := N_ h k i v).
  assert (Hm : abs khash s0 k = option_map ent (lookup (bin_nodes (get_bin t i0)) k)).
  { rewrite Habs0, abs_wf by exact H. rewrite Hlb. reflexivity. }
  unfold good, put_abs, put_out. rewrite Hm.
  (* the three shapes of result *)
  assert (Hsame : forall n, lookup (bin_nodes (get_bin t i0)) k = Some n ->
            good s0 (s, OExists (nv n) v)
              (match option_map ent (Some n) with
               | Some (i1, _) => if true then abs khash s0 else aupd (abs khash s0) k (i1, v)
               | None => aupd (abs khash s0) k (i, v) end)
              (match option_map ent (Some n) with
               | Some (_, v0) => if true then OExists v0 v else OVal v0
               | None => if true then OInserted v else ONone end)).
  { intros n Hn. cbn [option_map ent fst snd]. split; [exact H|]. split; [intros k'; symmetry; apply Habs0|].
    split; [reflexivity|]. split; [exact Hlen0|exact Hsz0]. }
  assert (Hset : forall n b' s2, lookup (bin_nodes (get_bin t i0)) k = Some n ->
            bin_ok khash (tlen t) i0 b' ->
            bin_nodes b' = lb_set (bin_nodes (get_bin t i0)) h k v ->
            (WFS (mkSt (Some (set_bin t i0 b')) (sc s) (cnt s)) ->
             grows (mkSt (Some (set_bin t i0 b')) (sc s) (cnt s)) s2) ->
            good s0 (s2, OVal (nv n))
              (match option_map ent (Some n) with
               | Some (i1, _) => if false then abs khash s0 else aupd (abs khash s0) k (i1, v)
               | None => aupd (abs khash s0) k (i, v) end)
              (match option_map ent (Some n) with
               | Some (_, v0) => if false then OExists v0 v else OVal v0
               | None => if false then OInserted v else ONone end)).
  { intros n b' s2 Hn Hb' Hnb Hg.
    destruct (set_finish s t i0 b' k v n s2 H Et Hi Hn Hb' Hnb Hg) as (F1 & F2 & F3 & F4 & F5).
    cbn [option_map ent fst snd]. split; [exact F1|]. split; [|split; [reflexivity|split; [eapply Z.le_trans; [exact Hlen0|exact F4]|tauto]]].
    intros k'. rewrite abs_wf by exact F1. rewrite F2. unfold aupd. rewrite Habs0, abs_wf by exact H.
    destruct (k' =? k)%N; reflexivity. }
  assert (Hadd : forall b' s2, lookup (bin_nodes (get_bin t i0)) k = None ->
            bin_ok khash (tlen t) i0 b' ->
            Permutation (bin_nodes b') (e :: bin_nodes (get_bin t i0)) ->
            (WFS (mkSt (Some (set_bin t i0 b')) (sc s) (cnt s)) ->
             grows (mkSt (Some (set_bin t i0 b')) (sc s) (cnt s)) s2) ->
            good s0 (add_count s2 1 true, if nr then OInserted v else ONone)
              (match option_map ent (@None node) with
               | Some (i1, _) => if nr then abs khash s0 else aupd (abs khash s0) k (i1, v)
               | None => aupd (abs khash s0) k (i, v) end)
              (match option_map ent (@None node) with
               | Some (_, v0) => if nr then OExists v0 v else OVal v0
               | None => if nr then OInserted v else ONone end)).
  { intros b' s2 Hn Hb' Hp Hg. assert (Hn' : lookup (nodes s) (nk e) = None) by (change (nk e) with k; rewrite Hlb; exact Hn).
    destruct (add_finish s t i0 b' e s2 H Et Hi Hn' Hb' Hp Hg) as (F1 & F2 & F3 & F4).
    cbn [option_map fst snd]. split; [exact F1|]. split; [|split; [reflexivity|split; [eapply Z.le_trans; [exact Hlen0|exact F3]|intros _; exact F4]]].
    intros k'. rewrite abs_wf by exact F1. rewrite F2. unfold aupd. rewrite Habs0, abs_wf by exact H.
    change (nk e) with k. destruct (k' =? k)%N; reflexivity. }
  clearbody s. clear Hm. subst h.
  destruct (get_bin t i0) as [|l|b|] eqn:Eb; cbn [bin_nodes] in Hok, Hk, Hlb, Hsame, Hset, Hadd |- *.
  - (* empty bin *)
    apply (Hadd (BList [e]) _ eq_refl).
    + cbn [bin_ok]. split; [discriminate|]. intros n [<-|[]]. apply placed_new.
    + reflexivity.
    + apply grows_refl.
  - (* list bin *)
    destruct Hok as [Hne Hp]. rewrite (lb_find_lookup khash l k Hk).
    destruct (lookup l k) as [n|] eqn:El.
    + destruct nr; [apply Hsame; reflexivity|].
      apply (Hset n (BList (lb_set l (khash k) k v))); [reflexivity| |reflexivity|].
      * apply (bin_set_ok (tlen t) i0 (BList l) k v). split; assumption.
      * intros Hs1. destruct (put_treeify _); [apply treeify_bin_grows|apply grows_refl]; exact Hs1.
    + apply (Hadd (BList (l ++ [e]))); [reflexivity| | |].
      * cbn [bin_ok]. split; [destruct l; discriminate|]. intros n Hn.
        apply in_app_or in Hn as [Hn|[<-|[]]]; [apply Hp; exact Hn|apply placed_new].
      * cbn [bin_nodes]. apply Permutation_sym, Permutation_cons_append.
      * intros Hs1. destruct (put_treeify _); [apply treeify_bin_grows|apply grows_refl]; exact Hs1.
  - (* tree bin *)
    destruct Hok as [Hb Hp]. rewrite (Hyp_find b (khash k) k Hb), (lb_find_lookup khash (tord b) k Hk).
    destruct (lookup (tord b) k) as [n|] eqn:El.
    + destruct nr; [apply Hsame; reflexivity|].
      apply (Hset n (BTree (tb_set b (khash k) k v))); [reflexivity| |reflexivity|apply grows_refl].
      apply (bin_set_ok (tlen t) i0 (BTree b) k v). split; assumption.
    + apply (Hadd (BTree (tb_put b e))); [reflexivity| |reflexivity|apply grows_refl].
      cbn [bin_ok tb_put tord]. split.
      * apply Hyp_put; [exact Hb| |].
        -- cbn [nh nk e]. rewrite (lb_find_lookup khash (tord b) k Hk). exact El.
        -- intros a Ha. cbn [nk e]. apply (lookup_none _ _ El a Ha).
      * intros n [<-|Hn]; [apply placed_new|apply Hp; exact Hn].
  - destruct Hok.
Qed.

(* ---------- remove ---------- *)

Lemma remove_some s t k :
  WF s -> tbl s = Some t ->
  Seq.remove khash s k =
  match bin_find (get_bin t (bini t (khash k))) (khash k) k with
  | None => (s, None)
  | Some n =>
      (add_count (mkSt (Some (set_bin t (bini t (khash k))
                                (bin_remove (get_bin t (bini t (khash k))) (khash k) k)))
                       (sc s) (cnt s)) (-1) false, Some n)
  end.
Proof.
  intros H Et. unfold Seq.remove. rewrite Et. pose proof (WFT_len_pos khash t (WF_some s t H Et)) as Hpos.
  destruct t; [cbn [length] in Hpos; lia_|reflexivity].
Qed.

Lemma remove_ok s k :
  WF s ->
  WF (fst (Seq.remove khash s k)) /\
  (forall k', lookup (nodes (fst (Seq.remove khash s k))) k' =
              if (k' =? k)%N then None else lookup (nodes s) k') /\
  snd (Seq.remove khash s k) = lookup (nodes s) k /\
  tlen_s (fst (Seq.remove khash s k)) = tlen_s s /\
  (sized s -> sized (fst (Seq.remove khash s k))).
Proof.
  intros H. destruct (tbl s) as [t|] eqn:Et.
  - rewrite (remove_some s t k H Et). set (i := bini t (khash k)).
    pose proof (WF_some s t H Et) as Ht.
    assert (Hi : (i < length t)%nat) by apply (WFT_bini_lt khash t _ Ht).
    pose proof (WFT_bin_ok khash t i Ht Hi) as Hok.
    pose proof (lookup_bin s t k H Et) as Hlb. fold i in Hlb.
    rewrite (bin_find_lookup _ _ _ k Hok).
    destruct (lookup (bin_nodes (get_bin t i)) k) as [n|] eqn:El; cbn [fst snd].
    + assert (Hf : lookup (bin_nodes (get_bin t i)) k <> None) by (rewrite El; discriminate).
      destruct (bin_remove_ok _ _ _ k Hok Hf) as [B1 B2].
      destruct (del_finish s t i _ k n false H Et Hi El B1 B2) as (F1 & F2 & F3 & F4 & F5 & F6).
      split; [exact F1|]. split; [exact F2|]. split; [rewrite Hlb; reflexivity|]. split; [apply F6; reflexivity|exact F5].
    + split; [exact H|]. split; [|split; [rewrite Hlb; reflexivity|split; [reflexivity|tauto]]].
      intros k'. destruct (N.eqb_spec k' k) as [->|]; [exact Hlb|reflexivity].
  - assert (E : Seq.remove khash s k = (s, None)) by (unfold Seq.remove; rewrite Et; reflexivity).
    rewrite E. cbn [fst snd]. unfold nodes. rewrite Et.
    split; [exact H|]. split; [intros k'; destruct (k' =? k)%N; reflexivity|].
    split; [reflexivity|split; [reflexivity|tauto]].
Qed.

(* ---------- compute_if_present ---------- *)

Lemma compute_some s0 t k f :
  tbl (init_table s0) = Some t ->
  get_bin t (bini t (khash k)) <> BMoved ->
  compute khash remap s0 k f =
  let s := init_table s0 in
  let i := bini t (khash k) in
  match bin_find (get_bin t i) (khash k) k with
  | None => (s, ONone)
  | Some n =>
      match remap f k (nv n) with
      | Some v' => (mkSt (Some (set_bin t i (bin_set (get_bin t i) (khash k) k v'))) (sc s) (cnt s), OVal v')
      | None => (add_count (mkSt (Some (set_bin t i (bin_remove (get_bin t i) (khash k) k))) (sc s) (cnt s))
                           (-1) true, ONone)
      end
  end.
Proof.
  intros Et Hb. unfold compute. rewrite Et. cbv zeta.
  destruct (get_bin t (bini t (khash k))); try reflexivity. contradiction.
Qed.

Definition compute_abs (m : amap) (k f : N) : amap :=
  match m k with
  | Some (i, v) => match remap f k v with Some v' => aupd m k (i, v') | None => adel m k end
  | None => m
  end.
Definition compute_out (m : amap) (k f : N) : outcome :=
  match m k with
  | Some (_, v) => match remap f k v with Some v' => OVal v' | None => ONone end
  | None => ONone
  end.

Lemma compute_ok s0 k f :
  WF s0 -> good s0 (compute khash remap s0 k f) (compute_abs (abs khash s0) k f) (compute_out (abs khash s0) k f).
Proof.
  intros H0. destruct (init_table_ok s0 H0) as (H & Hnodes & (t & Et) & _ & Hlen0 & Hsz0).
  assert (Habs0 : forall k', abs khash s0 k' = abs khash (init_table s0) k').
  { intros k'. rewrite !abs_wf by assumption. rewrite Hnodes. reflexivity. }
  pose proof (WF_some _ t H Et) as Ht. set (i := bini t (khash k)).
  assert (Hi : (i < length t)%nat) by apply (WFT_bini_lt khash t _ Ht).
  pose proof (WFT_bin_ok khash t i Ht Hi) as Hok.
  rewrite (compute_some s0 t k f Et (bin_ok_not_moved khash _ _ _ Hok)). cbv zeta. fold i.
  set (s := init_table s0) in *.
  pose proof (lookup_bin s t k H Et) as Hlb. fold i in Hlb.
  assert (Hm : abs khash s0 k = option_map ent (lookup (bin_nodes (get_bin t i)) k)).
  { rewrite Habs0, abs_wf by exact H. rewrite Hlb. reflexivity. }
  unfold good, compute_abs, compute_out. rewrite Hm.
  rewrite (bin_find_lookup _ _ _ k Hok).
  destruct (lookup (bin_nodes (get_bin t i)) k) as [n|] eqn:El; cbn [option_map ent].
  - destruct (remap f k (nv n)) as [v'|] eqn:Er; cbn [fst snd].
    + destruct (bin_set_ok _ _ _ k v' Hok) as [B1 B2].
      destruct (set_finish s t i _ k v' n _ H Et Hi El B1 B2 (grows_refl _)) as (F1 & F2 & F3 & F4 & F5).
      split; [exact F1|]. split; [|split; [reflexivity|split; [eapply Z.le_trans; [exact Hlen0|exact F4]|tauto]]].
      intros k'. rewrite abs_wf by exact F1. rewrite F2. unfold aupd. rewrite Habs0, abs_wf by exact H.
      destruct (k' =? k)%N; reflexivity.
    + assert (Hf : lookup (bin_nodes (get_bin t i)) k <> None) by (rewrite El; discriminate).
      destruct (bin_remove_ok _ _ _ k Hok Hf) as [B1 B2].
      destruct (del_finish s t i _ k n true H Et Hi El B1 B2) as (F1 & F2 & F3 & F4 & F5 & F6).
      split; [exact F1|]. split; [|split; [reflexivity|split; [eapply Z.le_trans; [exact Hlen0|exact F4]|tauto]]].
      intros k'. rewrite abs_wf by exact F1. rewrite F2. unfold adel. rewrite Habs0, abs_wf by exact H.
      destruct (k' =? k)%N; reflexivity.
  - cbn [fst snd]. split; [exact H|]. split; [intros k'; symmetry; apply Habs0|].
    split; [reflexivity|split; [exact Hlen0|exact Hsz0]].
Qed.

(* ---------- clear ---------- *)

Definition clear_bin (b : bin) : bin := match b with BMoved => BMoved | _ => BNull end.

Lemma nodes_clear t : flat_map bin_nodes (map clear_bin t) = [].
Proof. induction t as [|b t IH]; cbn [map flat_map]; [reflexivity|]. rewrite IH. destruct b; reflexivity. Qed.

Lemma WFT_clear t : WFT khash t -> WFT khash (map clear_bin t).
Proof.
  intros (Hp & Hb & Hd). split; [|split].
  - rewrite map_length. exact Hp.
  - intros i b Hi. rewrite nth_error_map in Hi. destruct (nth_error t i) as [b0|] eqn:E; [|discriminate].
    injection Hi as <-. specialize (Hb i b0 E). destruct b0; cbn [clear_bin bin_ok] in Hb |- *; tauto.
  - rewrite nodes_clear. constructor.
Qed.

Lemma clear_ok s :
  WF s ->
  WF (clear s) /\ nodes (clear s) = [] /\ tlen_s (clear s) = tlen_s s /\ sized (clear s).
Proof.
  intros H. unfold clear. destruct (tbl s) as [t|] eqn:Et.
  - fold clear_bin. pose proof H as H'. apply WF_iff in H' as [Hs Hc].
    pose proof (proj1 (WFS_some s t Et) Hs) as [Ht Hsc].
    set (s' := mkSt (Some (map clear_bin t)) (sc s) (cnt s)).
    assert (Hs' : WFS s').
    { unfold WFS, s'. cbn [tbl sc]. split; [apply WFT_clear; exact Ht|]. unfold tlen. rewrite map_length. exact Hsc. }
    assert (Hn : nodes s' = []) by apply nodes_clear.
    assert (Hlf : 1 <= sc s). { rewrite Hsc. apply lf_pos. apply (WFT_len_bounds khash t Ht). }
    assert (Htl : tlen_s s' = tlen_s s).
    { unfold tlen_s, s'. cbn [tbl]. rewrite Et. unfold tlen. rewrite map_length. reflexivity. }
    destruct (Z.eqb_spec (- Z.of_nat (length (nodes s))) 0) as [E|E].
    + split; [|split; [exact Hn|split; [exact Htl|]]].
      * apply WF_iff. split; [exact Hs'|]. rewrite Hn. unfold s'. cbn [cnt length]. lia_.
      * unfold sized, s'. cbn [tbl sc cnt]. left. lia_.
    + unfold add_count. cbn [tbl sc cnt]. rewrite add_count_stored_eq. fold s'.
      split; [|split; [exact Hn|split; [exact Htl|]]].
      * apply WF_iff. split; [exact Hs'|]. cbn [cnt].
        change (nodes {| tbl := tbl s'; sc := sc s'; cnt := cnt s' + - Z.of_nat (length (nodes s)) |}) with (nodes s').
        rewrite Hn. unfold s'. cbn [cnt length]. lia_.
      * unfold sized, s'. cbn [tbl sc cnt]. left. lia_.
  - split; [exact H|]. unfold nodes, tlen_s, sized. rewrite Et.
    split; [reflexivity|]. split; [reflexivity|]. apply WF_iff in H as [_ Hc]. unfold nodes in Hc.
    rewrite Et in Hc. exact Hc.
Qed.

(* ---------- retain ---------- *)

Definition retain_step (p : N) (acc : st) (n : node) : st :=
  if keep p (nk n) (nv n) then acc else fst (Seq.remove khash acc (nk n)).

Lemma retain_fold p : forall l acc,
  WF acc -> NoDup (keys l) -> (forall n, In n l -> lookup (nodes acc) (nk n) = Some n) ->
  WF (fold_left (retain_step p) l acc) /\
  (forall k, lookup (nodes (fold_left (retain_step p) l acc)) k =
             match lookup l k with
             | Some n => if keep p k (nv n) then lookup (nodes acc) k else None
             | None => lookup (nodes acc) k
             end) /\
  tlen_s (fold_left (retain_step p) l acc) = tlen_s acc /\
  (sized acc -> sized (fold_left (retain_step p) l acc)).
Proof.
  induction l as [|n l IH]; intros acc H Hd Hin; cbn [fold_left].
  - split; [exact H|]. split; [reflexivity|]. split; [reflexivity|tauto].
  - cbn [keys map] in Hd. inversion Hd as [|? ? Hn Hd']; subst.
    assert (Hfresh : lookup l (nk n) = None) by (apply lookup_none_keys; exact Hn).
    unfold retain_step at 2 4 6 8. destruct (keep p (nk n) (nv n)) eqn:Ek.
    + destruct (IH acc H Hd') as (I1 & I2 & I3 & I4); [intros n' Hn'; apply Hin; right; exact Hn'|].
      split; [exact I1|]. split; [|split; assumption].
      intros k. rewrite I2, lookup_cons. destruct (N.eqb_spec (nk n) k) as [<-|Hne]; [|reflexivity].
      rewrite Hfresh, Ek. reflexivity.
    + destruct (remove_ok acc (nk n) H) as (R1 & R2 & _ & R4 & R5).
      set (acc1 := fst (Seq.remove khash acc (nk n))) in *.
      destruct (IH acc1 R1 Hd') as (I1 & I2 & I3 & I4).
      { intros n' Hn'. rewrite R2. destruct (N.eqb_spec (nk n') (nk n)) as [E|_].
        - exfalso. apply Hn. rewrite <- E. apply in_map. exact Hn'.
        - apply Hin. right; exact Hn'. }
      split; [exact I1|]. split; [|split; [congruence|tauto]].
      intros k. rewrite I2, lookup_cons, !R2. destruct (N.eqb_spec (nk n) k) as [<-|Hne].
      * rewrite Hfresh, Ek, N.eqb_refl. reflexivity.
      * destruct (N.eqb_spec k (nk n)) as [E|_]; [congruence|reflexivity].
Qed.

Lemma retain_ok s p :
  WF s ->
  WF (retain khash keep s p) /\
  (forall k, abs khash (retain khash keep s p) k = aretain keep (abs khash s) p k) /\
  tlen_s (retain khash keep s p) = tlen_s s /\ (sized s -> sized (retain khash keep s p)).
Proof.
  intros H. pose proof (WFS_nodup s (WF_WFS s H)) as Hd.
  destruct (retain_fold p (nodes s) s H Hd) as (I1 & I2 & I3 & I4).
  { intros n Hn. apply lookup_in; assumption. }
  change (fold_left (retain_step p) (nodes s) s) with (retain khash keep s p) in *.
  split; [exact I1|]. split; [|split; assumption].
  intros k. rewrite abs_wf by exact I1. rewrite I2. unfold aretain. rewrite abs_wf by exact H.
  destruct (lookup (nodes s) k) as [n|] eqn:E; cbn [option_map ent]; [|reflexivity].
  destruct (keep p k (nv n)); reflexivity.
Qed.

(* ---------- reserve, extend ---------- *)

Lemma grows_good s s' :
  WF s -> grows s s' ->
  WF s' /\ (forall k, abs khash s' k = abs khash s k) /\ tlen_s s <= tlen_s s' /\ (sized s -> sized s').
Proof.
  intros H G. pose proof H as H0. apply WF_iff in H0 as [Hs Hc].
  assert (H' : WF s').
  { apply WF_iff. split; [apply G|]. rewrite (grows_length s s' G). destruct G as (_ & _ & -> & _). exact Hc. }
  split; [exact H'|]. split; [|split; apply G].
  intros k. rewrite !abs_wf by assumption. rewrite (grows_lookup s s' k Hs G). reflexivity.
Qed.

Lemma reserve_ok s n :
  WF s ->
  WF (reserve s n) /\ (forall k, abs khash (reserve s n) k = abs khash s k) /\
  tlen_s s <= tlen_s (reserve s n) /\ (sized s -> sized (reserve s n)).
Proof. intros H. apply grows_good; [exact H|]. apply try_presize_grows. apply WF_WFS; exact H. Qed.

Lemma ains_ext m m' k i v :
  (forall x, m x = m' x) -> forall x, ains m k i v x = ains m' k i v x.
Proof.
  intros E x. unfold ains. rewrite <- (E k). destruct (m k) as [[i0 v0]|]; unfold aupd; rewrite <- (E x); reflexivity.
Qed.

Lemma aput_all_ext items : forall m m',
  (forall x, m x = m' x) -> forall x, aput_all m items x = aput_all m' items x.
Proof.
  unfold aput_all. induction items as [|[[k i] v] items IH]; intros m m' E x; cbn [fold_left]; [apply E|].
  apply IH. apply ains_ext. exact E.
Qed.

Lemma put_all_ok items : forall s,
  WF s ->
  WF (put_all khash s items) /\
  (forall k, abs khash (put_all khash s items) k = aput_all (abs khash s) items k) /\
  tlen_s s <= tlen_s (put_all khash s items) /\ (sized s -> sized (put_all khash s items)).
Proof.
  unfold put_all, aput_all. induction items as [|[[k i] v] items IH]; intros s H; cbn [fold_left].
  - split; [exact H|]. split; [reflexivity|]. split; [lia_|tauto].
  - destruct (put_ok s k i v false H) as (P1 & P2 & _ & P4 & P5).
    destruct (IH _ P1) as (I1 & I2 & I3 & I4).
    split; [exact I1|]. split; [|split; [lia_|tauto]].
    intros x. rewrite I2. apply (aput_all_ext items). intros y. rewrite P2. reflexivity.
Qed.

Lemma extend_ok s hint items :
  WF s ->
  WF (extend khash s hint items) /\
  (forall k, abs khash (extend khash s hint items) k = aput_all (abs khash s) items k) /\
  tlen_s s <= tlen_s (extend khash s hint items) /\ (sized s -> sized (extend khash s hint items)).
Proof.
  intros H. unfold extend. set (r := if slen s =? 0 then hint else (hint + 1) / 2).
  destruct (reserve_ok s r H) as (R1 & R2 & R3 & R4).
  destruct (put_all_ok items _ R1) as (I1 & I2 & I3 & I4).
  split; [exact I1|]. split; [|split; [lia_|tauto]].
  intros k. rewrite I2. apply aput_all_ext. exact R2.
Qed.

(* ------------------------------------------------------------------------------------------ *)
(** * B: every operation refines its specification *)

Definition spec_n (s : st) : Z := Z.of_nat (length (nodes s)).
Definition spec_l (s : st) : list (N * N * Z) := map entry (nodes s).

Lemma good_ext s r m m' out out' :
  good s r m out -> (forall k, m k = m' k) -> out = out' -> good s r m' out'.
Proof.
  intros (G1 & G2 & G3 & G4) E <-. split; [exact G1|]. split; [|split; [exact G3|exact G4]].
  intros k. rewrite G2. apply E.
Qed.

Lemma good_readonly s out : WF s -> good s (s, out) (abs khash s) out.
Proof.
  intros H. split; [exact H|]. split; [reflexivity|]. split; [reflexivity|]. cbn [fst]. split; [lia_|tauto].
Qed.

Lemma get_node_key s k n : WF s -> get_node khash s k = Some n -> nk n = k.
Proof.
  intros H E. rewrite get_node_lookup in E by (apply WF_WFS; exact H). apply lookup_some in E. apply E.
Qed.

Lemma slen_wf s : WF s -> slen s = spec_n s.
Proof. intros H. unfold slen, spec_n. rewrite (wf_len s H). lia_. Qed.

Theorem put_refines s k i v :
  WF s -> good s (step khash remap keep s (Insert k i v))
               (spec_state remap keep (abs khash s) (Insert k i v))
               (spec_out remap (abs khash s) (Insert k i v) (spec_n s) (spec_l s)).
Proof. intros H. exact (put_ok s k i v false H). Qed.

Theorem try_insert_refines s k i v :
  WF s -> good s (step khash remap keep s (TryInsert k i v))
               (spec_state remap keep (abs khash s) (TryInsert k i v))
               (spec_out remap (abs khash s) (TryInsert k i v) (spec_n s) (spec_l s)).
Proof.
  intros H. apply (good_ext _ _ _ _ _ _ (put_ok s k i v true H)).
  - intros x. unfold put_abs. cbn [spec_state]. destruct (abs khash s k) as [[i0 v0]|]; reflexivity.
  - reflexivity.
Qed.

Theorem remove_refines s k :
  WF s ->
  good s (step khash remap keep s (Remove k))
         (spec_state remap keep (abs khash s) (Remove k))
         (spec_out remap (abs khash s) (Remove k) (spec_n s) (spec_l s)) /\
  good s (step khash remap keep s (RemoveEntry k))
         (spec_state remap keep (abs khash s) (RemoveEntry k))
         (spec_out remap (abs khash s) (RemoveEntry k) (spec_n s) (spec_l s)) /\
  tlen_s (fst (step khash remap keep s (Remove k))) = tlen_s s /\
  tlen_s (fst (step khash remap keep s (RemoveEntry k))) = tlen_s s.
Proof.
  intros H. destruct (remove_ok s k H) as (R1 & R2 & R3 & R4 & R5). cbn [step spec_state spec_out].
  destruct (Seq.remove khash s k) as [s' r]. cbn [fst snd] in R1, R2, R3, R4, R5 |- *.
  assert (Habs : forall x, abs khash s' x = adel (abs khash s) k x).
  { intros x. unfold adel. rewrite !abs_wf by assumption. rewrite R2. destruct (x =? k)%N; reflexivity. }
  rewrite (abs_wf s k H), <- R3.
  split; [|split; [|split; exact R4]].
  - split; [exact R1|]. split; [exact Habs|]. cbn [fst snd]. split; [|split; [lia_|exact R5]].
    destruct r; reflexivity.
  - split; [exact R1|]. split; [exact Habs|]. cbn [fst snd]. split; [|split; [lia_|exact R5]].
    destruct r as [n|]; [|reflexivity]. cbn [option_map ent].
    symmetry in R3. apply lookup_some in R3 as [_ ->]. reflexivity.
Qed.

Theorem compute_refines s k f :
  WF s -> good s (step khash remap keep s (Compute k f))
               (spec_state remap keep (abs khash s) (Compute k f))
               (spec_out remap (abs khash s) (Compute k f) (spec_n s) (spec_l s)).
Proof. intros H. exact (compute_ok s k f H). Qed.

Theorem clear_refines s :
  WF s -> good s (step khash remap keep s Clear)
               (spec_state remap keep (abs khash s) Clear)
               (spec_out remap (abs khash s) Clear (spec_n s) (spec_l s)).
Proof.
  intros H. destruct (clear_ok s H) as (C1 & C2 & C3 & C4). cbn [step spec_state spec_out].
  split; [exact C1|]. cbn [fst snd]. split; [|split; [reflexivity|split; [lia_|tauto]]].
  intros k. rewrite abs_wf by exact C1. rewrite C2. reflexivity.
Qed.

Theorem retain_refines s p :
  WF s ->
  good s (step khash remap keep s (Retain p))
         (spec_state remap keep (abs khash s) (Retain p))
         (spec_out remap (abs khash s) (Retain p) (spec_n s) (spec_l s)) /\
  good s (step khash remap keep s (RetainForce p))
         (spec_state remap keep (abs khash s) (RetainForce p))
         (spec_out remap (abs khash s) (RetainForce p) (spec_n s) (spec_l s)).
Proof.
  intros H. destruct (retain_ok s p H) as (R1 & R2 & R3 & R4). cbn [step spec_state spec_out].
  split; (split; [exact R1|]; cbn [fst snd]; split; [exact R2|split; [reflexivity|split; [lia_|exact R4]]]).
Qed.

Theorem reserve_refines s n :
  WF s -> good s (step khash remap keep s (Reserve n))
               (spec_state remap keep (abs khash s) (Reserve n))
               (spec_out remap (abs khash s) (Reserve n) (spec_n s) (spec_l s)).
Proof.
  intros H. destruct (reserve_ok s n H) as (R1 & R2 & R3 & R4). cbn [step spec_state spec_out].
  split; [exact R1|]. cbn [fst snd]. split; [exact R2|]. split; [reflexivity|]. split; assumption.
Qed.

Theorem extend_refines s hint items :
  WF s -> good s (step khash remap keep s (Extend hint items))
               (spec_state remap keep (abs khash s) (Extend hint items))
               (spec_out remap (abs khash s) (Extend hint items) (spec_n s) (spec_l s)).
Proof.
  intros H. destruct (extend_ok s hint items H) as (R1 & R2 & R3 & R4). cbn [step spec_state spec_out].
  split; [exact R1|]. cbn [fst snd]. split; [exact R2|]. split; [reflexivity|]. split; assumption.
Qed.

Theorem readonly_refines s o :
  WF s ->
  match o with Get _ | GetKeyValue _ | ContainsKey _ | Len | IsEmpty | Iter => True | _ => False end ->
  good s (step khash remap keep s o) (spec_state remap keep (abs khash s) o)
         (spec_out remap (abs khash s) o (spec_n s) (spec_l s)) /\
  fst (step khash remap keep s o) = s.
Proof.
  intros H Ho. destruct o; try contradiction; cbn [step spec_state spec_out fst];
    (split; [|reflexivity]); eapply good_ext; try apply (good_readonly s _ H); try reflexivity.
  - unfold abs. destruct (get_node khash s k); reflexivity.
  - unfold abs. destruct (get_node khash s k) as [n|] eqn:E; [|reflexivity]. cbn [option_map].
    rewrite (get_node_key s k n H E). reflexivity.
  - unfold abs. destruct (get_node khash s k); reflexivity.
  - rewrite slen_wf by exact H. reflexivity.
  - rewrite slen_wf by exact H. reflexivity.
Qed.

Theorem step_good s o :
  WF s -> good s (step khash remap keep s o) (spec_state remap keep (abs khash s) o)
               (spec_out remap (abs khash s) o (spec_n s) (spec_l s)).
Proof.
  intros H. destruct o.
  - apply put_refines; exact H.
  - apply try_insert_refines; exact H.
  - apply readonly_refines; [exact H|exact I].
  - apply readonly_refines; [exact H|exact I].
  - apply readonly_refines; [exact H|exact I].
  - apply remove_refines; exact H.
  - apply remove_refines; exact H.
  - apply compute_refines; exact H.
  - apply retain_refines; exact H.
  - apply retain_refines; exact H.
  - apply clear_refines; exact H.
  - apply reserve_refines; exact H.
  - apply extend_refines; exact H.
  - apply readonly_refines; [exact H|exact I].
  - apply readonly_refines; [exact H|exact I].
  - apply readonly_refines; [exact H|exact I].
Qed.

Theorem step_refines s o :
  WF s ->
  let '(s', out) := step khash remap keep s o in
  WF s' /\
  (forall k, abs khash s' k = spec_state remap keep (abs khash s) o k) /\
  out = spec_out remap (abs khash s) o (Z.of_nat (length (nodes s))) (map entry (nodes s)).
Proof.
  intros H. destruct (step_good s o H) as (G1 & G2 & G3 & _).
  destruct (step khash remap keep s o) as [s' out]. cbn [fst snd] in G1, G2, G3 |- *. tauto.
Qed.

(* the reachable-state invariant "below the threshold unless full" is preserved as well *)
Theorem step_sized s o : WF s -> sized s -> sized (fst (step khash remap keep s o)).
Proof. intros H. apply (step_good s o H). Qed.

(* ------------------------------------------------------------------------------------------ *)
(** * C: runs, and the initial states *)

(* an abstract run: each outcome is the specified one for some listing of the current abstract map *)
Inductive spec_run : amap -> list op -> amap -> list outcome -> Prop :=
| SR_nil m m' : (forall k, m' k = m k) -> spec_run m [] m' []
| SR_cons m o ops l m1 m' outs :
    lists l m -> (forall k, m1 k = spec_state remap keep m o k) ->
    spec_run m1 ops m' outs ->
    spec_run m (o :: ops) m' (spec_out remap m o (Z.of_nat (length l)) l :: outs).

Definition run_step : st * list outcome -> op -> st * list outcome :=
  fun '(s, outs) o => let '(s', r) := step khash remap keep s o in (s', outs ++ [r]).

Lemma run_from ops : forall s acc,
  WF s ->
  exists s' outs,
    fold_left run_step ops (s, acc) = (s', acc ++ outs) /\
    WF s' /\ spec_run (abs khash s) ops (abs khash s') outs /\
    tlen_s s <= tlen_s s' /\ (sized s -> sized s').
Proof.
  induction ops as [|o ops IH]; intros s acc H; cbn [fold_left].
  - exists s, []. rewrite app_nil_r. split; [reflexivity|]. split; [exact H|].
    split; [constructor; reflexivity|]. split; [lia_|tauto].
  - destruct (step_good s o H) as (G1 & G2 & G3 & G4 & G5).
    change (run_step (s, acc) o) with (let '(s', r) := step khash remap keep s o in (s', acc ++ [r])).
    destruct (step khash remap keep s o) as [s1 r]. cbn [fst snd] in G1, G2, G3, G4, G5 |- *.
    destruct (IH s1 (acc ++ [r]) G1) as (s' & outs & E & W & R & L & Zs).
    exists s', (r :: outs). rewrite E, <- app_assoc. split; [reflexivity|]. split; [exact W|].
    split; [|split; [lia_|tauto]].
    rewrite G3. unfold spec_n, spec_l. rewrite <- (map_length entry (nodes s)).
    apply (SR_cons _ _ _ _ (abs khash s1)); [apply nodes_lists_abs; exact H|exact G2|exact R].
Qed.

Theorem run_refines s ops :
  WF s ->
  let '(s', outs) := run khash remap keep s ops in
  WF s' /\ spec_run (abs khash s) ops (abs khash s') outs /\
  tlen_s s <= tlen_s s' /\ (sized s -> sized s').
Proof.
  intros H. destruct (run_from ops s [] H) as (s' & outs & E & W & R & L & Zs).
  assert (Er : run khash remap keep s ops = fold_left run_step ops (s, [])) by reflexivity.
  rewrite Er, E. cbn [app]. tauto.
Qed.

Theorem with_capacity_wf c :
  WF (with_capacity c) /\ (forall k, abs khash (with_capacity c) k = aempty k) /\
  nodes (with_capacity c) = [] /\ sized (with_capacity c).
Proof.
  unfold with_capacity. destruct (c =? 0).
  - split; [|split; [reflexivity|split; reflexivity]]. split; [reflexivity|]. intros _. left; reflexivity.
  - rewrite both_roundings_agree. destruct (capacity_round_pow2 c) as (j & Hj & ->). unfold presize_threshold.
    pose proof (WFS_empty j 0 Hj) as Hs.
    assert (Hn : nodes (mkSt (Some (empty_table (2 ^ Z.of_nat j))) (load_factor (2 ^ Z.of_nat j)) 0) = [])
      by apply nodes_empty_table.
    assert (Hw : WF (mkSt (Some (empty_table (2 ^ Z.of_nat j))) (load_factor (2 ^ Z.of_nat j)) 0)).
    { apply WF_iff. split; [exact Hs|]. rewrite Hn. reflexivity. }
    split; [exact Hw|]. split; [|split; [exact Hn|]].
    + intros k. rewrite abs_wf by exact Hw. rewrite Hn. reflexivity.
    + unfold sized. cbn [tbl sc cnt]. left. pose proof (lf_pos _ (pow2_pos j)). lia_.
Qed.

(* every state reachable from a fresh map is well formed and below its threshold (or full) *)
Theorem reachable_wf_sized c ops :
  let '(s', _) := run khash remap keep (with_capacity c) ops in WF s' /\ sized s'.
Proof.
  destruct (with_capacity_wf c) as (W & _ & _ & Z0).
  pose proof (run_refines (with_capacity c) ops W) as R.
  destruct (run khash remap keep (with_capacity c) ops) as [s' outs].
  destruct R as (R1 & _ & _ & R4). split; [exact R1|apply R4; exact Z0].
Qed.

(* ------------------------------------------------------------------------------------------ *)
(** * D: the capacity contract (C14) *)

Lemma WF_tlen_pow2 s t :
  WF s -> tbl s = Some t -> exists j : nat, (j <= 30)%nat /\ tlen t = 2 ^ Z.of_nat j.
Proof. intros H E. apply WFT_tlen_pow2. apply (WF_some s t H E). Qed.

(* the table never gets shorter (and by WF its length stays a power of two <= 2^30) *)
Theorem table_never_shrinks s o : WF s -> tlen_s s <= tlen_s (fst (step khash remap keep s o)).
Proof. intros H. apply (step_good s o H). Qed.

Theorem removal_never_grows s o :
  WF s ->
  match o with Remove _ | RemoveEntry _ | Retain _ | RetainForce _ | Clear => True | _ => False end ->
  tlen_s (fst (step khash remap keep s o)) = tlen_s s.
Proof.
  intros H Ho. destruct o; try contradiction.
  - apply (remove_refines s k H).
  - apply (remove_refines s k H).
  - apply (retain_ok s p H).
  - apply (retain_ok s p H).
  - apply (clear_ok s H).
Qed.

(* compute_if_present never inserts; it asks add_count for a resize check, which finds the real
   count (add_count_local_is_stored) below the threshold in every reachable state *)
Theorem compute_never_grows s k f :
  WF s -> sized s -> tbl s <> None ->
  tlen_s (fst (step khash remap keep s (Compute k f))) = tlen_s s.
Proof.
  intros H Hz Hn. cbn [step]. destruct (init_table_ok s H) as (_ & _ & (t & Et) & Einit & _).
  specialize (Einit Hn). rewrite Einit in Et.
  pose proof (WF_some _ t H Et) as Ht. set (i := bini t (khash k)).
  assert (Hi : (i < length t)%nat) by apply (WFT_bini_lt khash t _ Ht).
  pose proof (WFT_bin_ok khash t i Ht Hi) as Hok.
  assert (Et' : tbl (init_table s) = Some t) by (rewrite Einit; exact Et).
  rewrite (compute_some s t k f Et' (bin_ok_not_moved khash _ _ _ Hok)). cbv zeta. fold i. rewrite Einit.
  destruct (bin_find (get_bin t i) (khash k) k) as [n|]; [|reflexivity].
  destruct (remap f k (nv n)) as [v'|]; cbn [fst].
  - unfold tlen_s. cbn [tbl]. rewrite Et. apply tlen_set_bin. exact Hi.
  - unfold add_count. rewrite add_count_local_is_stored. cbn [tbl sc cnt].
    set (t' := set_bin t i (bin_remove (get_bin t i) (khash k) k)).
    assert (El : tlen t' = tlen t) by (apply tlen_set_bin; exact Hi).
    unfold sized in Hz. rewrite Et in Hz. destruct Hz as [Hz|Hz].
    + rewrite grow_loop_below.
      * unfold tlen_s. cbn [tbl]. rewrite Et. exact El.
      * cbn [sc]. unfold add_count_below. rewrite add_count_stored_eq. apply Z.ltb_lt. lia_.
    + rewrite (grow_loop_full _ _ _ t').
      * unfold tlen_s. cbn [tbl]. rewrite Et. exact El.
      * reflexivity.
      * rewrite El. exact Hz.
Qed.

(* ---------- when does an insertion grow the table? ---------- *)

Lemma tlen_transfer_all t : tlen (transfer_all t) = 2 * tlen t.
Proof. unfold transfer_all, tlen. rewrite app_length, !map_length. lia_. Qed.

Lemma presize_loop_mono fuel : forall c s, tlen_s s <= tlen_s (presize_loop fuel c s).
Proof.
  induction fuel as [|fuel IH]; intros c s; cbn [presize_loop]; [lia_|].
  destruct (try_presize_busy (sc s)); [lia_|].
  destruct (tbl s) as [[|b t]|] eqn:Et.
  - eapply Z.le_trans; [|apply IH]. unfold tlen_s. rewrite Et. cbn [tbl]. unfold tlen. cbn [length]. lia_.
  - destruct (try_presize_stop _ _ _); [lia_|]. eapply Z.le_trans; [|apply IH].
    unfold resize_once, tlen_s. rewrite Et. cbn [tbl]. rewrite tlen_transfer_all. unfold tlen. lia_.
  - eapply Z.le_trans; [|apply IH]. unfold tlen_s. rewrite Et. cbn [tbl]. unfold tlen. lia_.
Qed.

Lemma presize_loop_same fuel c s b t :
  tbl s = Some (b :: t) -> tlen_s (presize_loop fuel c s) = tlen_s s -> presize_loop fuel c s = s.
Proof.
  intros Et. destruct fuel as [|fuel]; cbn [presize_loop]; [reflexivity|].
  destruct (try_presize_busy (sc s)); [reflexivity|]. rewrite Et.
  destruct (try_presize_stop _ _ _); [reflexivity|]. intros E. exfalso.
  pose proof (presize_loop_mono fuel c (resize_once s)) as M. rewrite E in M.
  unfold resize_once, tlen_s in M. rewrite Et in M. cbn [tbl] in M. rewrite tlen_transfer_all in M.
  unfold tlen in M. cbn [length] in M. lia_.
Qed.

Lemma try_presize_same s size b t :
  tbl s = Some (b :: t) -> tlen_s (try_presize s size) = tlen_s s -> try_presize s size = s.
Proof. unfold try_presize. apply presize_loop_same. Qed.

Lemma treeify_change s t i :
  tbl s = Some t -> tlen_s (treeify_bin s i) <> tlen_s s -> treeify_resizes (tlen t) = true.
Proof.
  intros Et. unfold treeify_bin. rewrite Et. destruct (treeify_resizes (tlen t)); [reflexivity|].
  intros Hne. exfalso. apply Hne.
  destruct (get_bin t i) as [|l| |] eqn:Eb; try reflexivity.
  unfold tlen_s. cbn [tbl]. rewrite Et. apply tlen_set_bin. apply get_bin_lt. congruence.
Qed.

Lemma treeify_same s b t i :
  tbl s = Some (b :: t) -> tlen_s (treeify_bin s i) = tlen_s s ->
  sc (treeify_bin s i) = sc s /\ cnt (treeify_bin s i) = cnt s.
Proof.
  intros Et. unfold treeify_bin. rewrite Et. destruct (treeify_resizes _).
  - intros E. rewrite (try_presize_same _ _ _ _ Et E). split; reflexivity.
  - intros _. destruct (get_bin (b :: t) i); split; reflexivity.
Qed.

Lemma add_count_inc_change s :
  tlen_s (add_count s 1 true) <> tlen_s s -> sc s <= cnt s + 1.
Proof.
  intros Hne. destruct (Z.lt_ge_cases (cnt s + 1) (sc s)) as [Hlt|]; [|lia_]. exfalso. apply Hne.
  unfold add_count. rewrite grow_loop_below; [reflexivity|].
  cbn [sc]. unfold add_count_below. apply Z.ltb_lt. exact Hlt.
Qed.

Lemma put_treeify_true bc : put_treeify bc = true -> TREEIFY_THRESHOLD <= bc.
Proof. unfold put_treeify. intros H. apply Z.geb_le in H. exact H. Qed.

Lemma treeify_resizes_true n : treeify_resizes n = true -> n < MIN_TREEIFY_CAPACITY.
Proof. unfold treeify_resizes. apply Z.ltb_lt. Qed.

Definition growth_due (s : st) (t : list bin) (k : N) : Prop :=
  sc s <= cnt s + 1 \/
  (TREEIFY_THRESHOLD <= Z.of_nat (length (bin_nodes (get_bin t (bini t (khash k))))) /\
   tlen t < MIN_TREEIFY_CAPACITY).

Lemma put_growth s t k i v nr :
  WF s -> tbl s = Some t ->
  tlen_s (fst (put khash s k i v nr)) <> tlen t -> growth_due s t k.
Proof.
  intros H Et. destruct (init_table_ok s H) as (_ & _ & _ & Einit & _).
  assert (Hn : tbl s <> None) by congruence. specialize (Einit Hn).
  pose proof (WF_some _ t H Et) as Ht.
  assert (Hi : (bini t (khash k) < length t)%nat) by apply (WFT_bini_lt khash t _ Ht).
  assert (Hcons : exists b0 t0, t = b0 :: t0).
  { pose proof (WFT_len_pos khash t Ht) as Hpos. destruct t as [|b0 t0]; [cbn [length] in Hpos; lia_|eauto]. }
  unfold put, growth_due. rewrite Einit, Et. set (i0 := bini t (khash k)) in *.
  (* the state with bin i0 replaced *)
  assert (Hs' : forall b', tlen_s (mkSt (Some (set_bin t i0 b')) (sc s) (cnt s)) = tlen t).
  { intros b'. unfold tlen_s. cbn [tbl]. apply tlen_set_bin. exact Hi. }
  assert (Hadd : forall b', tlen_s (add_count (mkSt (Some (set_bin t i0 b')) (sc s) (cnt s)) 1 true) <> tlen t ->
                            sc s <= cnt s + 1).
  { intros b' Hne. rewrite <- (Hs' b') in Hne. apply add_count_inc_change in Hne. exact Hne. }
  assert (Htree : forall b' bc,
            tlen_s (if put_treeify bc then treeify_bin (mkSt (Some (set_bin t i0 b')) (sc s) (cnt s)) i0
                    else mkSt (Some (set_bin t i0 b')) (sc s) (cnt s)) <> tlen t ->
            TREEIFY_THRESHOLD <= bc /\ tlen t < MIN_TREEIFY_CAPACITY).
  { intros b' bc Hne. destruct (put_treeify bc) eqn:Ep; [|rewrite Hs' in Hne; congruence].
    split; [apply put_treeify_true; exact Ep|]. rewrite <- (Hs' b') in Hne.
    apply (treeify_change _ (set_bin t i0 b')) in Hne; [|reflexivity].
    apply treeify_resizes_true in Hne. rewrite tlen_set_bin in Hne by exact Hi. exact Hne. }
  destruct (get_bin t i0) as [|l|b|] eqn:Eb; cbn [bin_nodes].
  - cbn [fst]. intros Hne. left. apply (Hadd _ Hne).
  - destruct (lb_find l (khash k) k) as [n|] eqn:El.
    + destruct nr; cbn [fst].
      * unfold tlen_s. rewrite Et. congruence.
      * intros Hne. apply Htree in Hne as [Hb Hc]. right. split; [|exact Hc].
        revert Hb. destruct (lb_pos l (khash k) k 1) as [c|] eqn:Ep; intros Hb.
        -- apply lb_pos_bound in Ep. lia_.
        -- apply lb_pos_find in Ep. congruence.
    + cbn [fst]. set (s1 := mkSt (Some (set_bin t i0 (BList (l ++ [N_ (khash k) k i v])))) (sc s) (cnt s)).
      set (s2 := if put_treeify (Z.of_nat (length l)) then treeify_bin s1 i0 else s1).
      intros Hne. destruct (Z.eq_dec (tlen_s s2) (tlen t)) as [E|E].
      * left. assert (Hsc : sc s2 = sc s /\ cnt s2 = cnt s).
        { unfold s2 in E |- *. destruct (put_treeify _); [|split; reflexivity].
          destruct Hcons as (b0 & t0 & ->).
          assert (Ec : exists b1 t1, set_bin (b0 :: t0) i0 (BList (l ++ [N_ (khash k) k i v])) = b1 :: t1).
          { destruct i0; [rewrite set_bin_cons0|rewrite set_bin_consS]; eauto. }
          destruct Ec as (b1 & t1 & Ec).
          apply (treeify_same s1 b1 t1 i0); [unfold s1; cbn [tbl]; rewrite Ec; reflexivity|].
          rewrite E. symmetry. apply Hs'. }
        rewrite <- E in Hne. apply add_count_inc_change in Hne. destruct Hsc as [E1 E2]. rewrite E1, E2 in Hne. exact Hne.
      * right. apply (Htree _ _ E).
  - destruct (t_find (troot b) (khash k) k) as [n|].
    + destruct nr; cbn [fst].
      * unfold tlen_s. rewrite Et. congruence.
      * rewrite Hs'. congruence.
    + cbn [fst]. intros Hne. left. apply (Hadd _ Hne).
  - cbn [fst]. unfold tlen_s. rewrite Et. congruence.
Qed.

Theorem growth_only_when_due s t o :
  WF s -> sized s -> tbl s = Some t ->
  tlen_s (fst (step khash remap keep s o)) <> tlen_s s ->
  match o with
  | Reserve _ | Extend _ _ => True
  | Insert k _ _ | TryInsert k _ _ => growth_due s t k
  | _ => False
  end.
Proof.
  intros H Hz Et Hne. assert (Hn : tbl s <> None) by congruence.
  assert (Etl : tlen_s s = tlen t) by (unfold tlen_s; rewrite Et; reflexivity).
  destruct o; try exact I;
    try (apply Hne; apply removal_never_grows; [exact H|exact I]);
    try (apply Hne; reflexivity).
  - rewrite Etl in Hne. apply (put_growth s t k i v false H Et Hne).
  - rewrite Etl in Hne. apply (put_growth s t k i v true H Et Hne).
  - apply Hne. apply compute_never_grows; assumption.
Qed.

(* ------------------------------------------------------------------------------------------ *)
(** * E: compute_if_present calls the function before any write (C18) *)

(* everything compute does after the callback has returned r *)
Definition compute_finish (s : st) (t : list bin) (k : N) (r : option Z) : st * outcome :=
  let i := bini t (khash k) in
  let b := get_bin t i in
  match r with
  | Some v' => (mkSt (Some (set_bin t i (bin_set b (khash k) k v'))) (sc s) (cnt s), OVal v')
  | None => (add_count (mkSt (Some (set_bin t i (bin_remove b (khash k) k))) (sc s) (cnt s)) (-1) true,
             ONone)
  end.

Theorem compute_callback_before_write s0 k f :
  WF s0 ->
  let s := init_table s0 in
  (forall k', abs khash s k' = abs khash s0 k') /\
  match abs khash s0 k with
  | None => compute khash remap s0 k f = (s, ONone)
  | Some (i, v) =>
      exists t, tbl s = Some t /\
                compute khash remap s0 k f = compute_finish s t k (remap f k v)
  end.
Proof.
  intros H0. cbv zeta. destruct (init_table_ok s0 H0) as (H & Hnodes & (t & Et) & _).
  assert (Habs0 : forall k', abs khash (init_table s0) k' = abs khash s0 k').
  { intros k'. rewrite !abs_wf by assumption. rewrite Hnodes. reflexivity. }
  split; [exact Habs0|].
  pose proof (WF_some _ t H Et) as Ht. set (i := bini t (khash k)).
  assert (Hi : (i < length t)%nat) by apply (WFT_bini_lt khash t _ Ht).
  pose proof (WFT_bin_ok khash t i Ht Hi) as Hok.
  rewrite (compute_some s0 t k f Et (bin_ok_not_moved khash _ _ _ Hok)). cbv zeta. fold i.
  rewrite <- Habs0. unfold abs at 1. rewrite get_node_lookup by (apply WF_WFS; exact H).
  rewrite (lookup_bin _ t k H Et). fold i. rewrite (bin_find_lookup _ _ _ k Hok).
  destruct (lookup (bin_nodes (get_bin t i)) k) as [n|]; cbn [option_map]; [|reflexivity].
  exists t. split; [exact Et|]. unfold compute_finish. fold i. destruct (remap f k (nv n)); reflexivity.
Qed.

End TreeFacts.
End WithHash.

(* ------------------------------------------------------------------------------------------ *)
(** * After the sections: corollaries, counterexamples, assumptions *)

(* E, second form: compute_if_present depends on the callback only through its result on the
   value currently stored under the key *)
Theorem compute_reads_callback_once (khash : N -> N) (remap1 remap2 : N -> N -> Z -> option Z)
  (Hyp_find : forall b h k, tb_b b = true -> t_find (troot b) h k = lb_find (tord b) h k) s0 k f :
  WF khash s0 ->
  (forall i v, abs khash s0 k = Some (i, v) -> remap1 f k v = remap2 f k v) ->
  compute khash remap1 s0 k f = compute khash remap2 s0 k f.
Proof.
  intros H E.
  destruct (compute_callback_before_write khash remap1 Hyp_find s0 k f H) as [_ C1].
  destruct (compute_callback_before_write khash remap2 Hyp_find s0 k f H) as [_ C2].
  destruct (abs khash s0 k) as [[i v]|].
  - destruct C1 as (t1 & E1 & ->). destruct C2 as (t2 & E2 & ->). rewrite E1 in E2.
    injection E2 as <-. rewrite (E i v eq_refl). reflexivity.
  - rewrite C1, C2. reflexivity.
Qed.

(* COUNTEREXAMPLE 1.  wf_b alone is not an invariant: Model/WF.v accepts any threshold 0 <= sc for a
   map without table, but the lazily created table has length sc.  (The implementation only ever
   has sc = 0 there, hence none_ok in the definition of WF.) *)
Example wf_b_alone_not_preserved :
  let khash := fun x : N => x in
  let s := mkSt None 3 0 in
  wf_b khash s = true /\
  wf_b khash (fst (step khash (fun _ _ _ => None) (fun _ _ _ => true) s (Insert 1 1 1))) = false.
Proof. vm_compute. split; reflexivity. Qed.

(* COUNTEREXAMPLE 2.  compute_never_grows needs `sized`: in a well-formed but unreachable state whose
   counter exceeds the threshold, a removal through compute_if_present doubles the table. *)
Example compute_grows_when_not_sized :
  let khash := fun x : N => x in
  let s := mkSt (Some [BList [N_ 1 1 1 1; N_ 2 2 2 2; N_ 3 3 3 3]]) 1 3 in
  wf_b khash s = true /\ tlen_s s = 1 /\
  tlen_s (fst (step khash (fun _ _ _ => None) (fun _ _ _ => true) s (Compute 1 0))) = 4.
Proof. vm_compute. repeat split; reflexivity. Qed.

Print Assumptions nodes_lists_abs.
Print Assumptions wf_len.
Print Assumptions put_refines.
Print Assumptions try_insert_refines.
Print Assumptions remove_refines.
Print Assumptions compute_refines.
Print Assumptions clear_refines.
Print Assumptions retain_refines.
Print Assumptions reserve_refines.
Print Assumptions extend_refines.
Print Assumptions readonly_refines.
Print Assumptions step_refines.
Print Assumptions step_sized.
Print Assumptions run_refines.
Print Assumptions with_capacity_wf.
Print Assumptions reachable_wf_sized.
Print Assumptions table_never_shrinks.
Print Assumptions removal_never_grows.
Print Assumptions compute_never_grows.
Print Assumptions growth_only_when_due.
Print Assumptions compute_callback_before_write.
Print Assumptions compute_reads_callback_once.
