(* Sequential refinement (C02, C05, C14). *)
From Flurry Require Import Model.Spec.
