From Flurry Require Import Model.Bulk.
From Coq Require Import List ZArith Lia Permutation.
Import ListNotations.
Open Scope Z_scope.

Lemma ains_other m k i v k' : k' <> k -> ains m k i v k' = m k'.
Proof.
  intros Hne. unfold ains. destruct (m k) as [[i0 v0]|]; unfold aupd;
  destruct (N.eqb_spec k' k); congruence.
Qed.

Lemma ains_same m k i v : exists i', ains m k i v k = Some (i', v) /\
  (match m k with Some (i0, _) => i' = i0 | None => i' = i end).
Proof.
  unfold ains. destruct (m k) as [[i0 v0]|] eqn:E; unfold aupd; rewrite N.eqb_refl; eauto.
Qed.

(* the value of k after inserting a list of entries: the last supplied value, else the old one *)
Lemma aput_all_val : forall entries m k,
  option_map snd (aput_all m entries k) =
  match last_val entries k with Some v => Some v | None => option_map snd (m k) end.
Proof.
  induction entries as [|[[k' i'] v'] rest IH]; intros m k; cbn [aput_all fold_left last_val].
  - reflexivity.
  - change (fold_left _ rest (ains m k' i' v')) with (aput_all (ains m k' i' v') rest).
    rewrite IH. destruct (last_val rest k) as [v''|]; [reflexivity|].
    destruct (N.eqb_spec k' k) as [->|Hne].
    + destruct (ains_same m k i' v') as (i'' & -> & _). reflexivity.
    + rewrite ains_other by congruence. reflexivity.
Qed.

Lemma last_val_supplied : forall entries k v, last_val entries k = Some v -> supplied entries k v.
Proof.
  induction entries as [|[[k' i'] v'] rest IH]; intros k v H; cbn [last_val] in H; [discriminate|].
  destruct (last_val rest k) as [v''|] eqn:E.
  - injection H as <-. destruct (IH k v'' E) as [i Hi]. exists i. right. exact Hi.
  - destruct (N.eqb_spec k' k) as [->|]; [|discriminate]. injection H as <-. exists i'. left. reflexivity.
Qed.

Lemma last_val_none : forall entries k, last_val entries k = None <-> (forall i v, ~ In (k, i, v) entries).
Proof.
  induction entries as [|[[k' i'] v'] rest IH]; intros k; cbn [last_val]; split.
  - intros _ i v [].
  - reflexivity.
  - intros H i v [E|Hin].
    + injection E as -> -> ->. destruct (last_val rest k); [discriminate|]. rewrite N.eqb_refl in H. discriminate.
    + destruct (last_val rest k) eqn:E; [discriminate|]. pose proof (proj1 (IH k) E) as E'. exact (E' i v Hin).
  - intros H. assert (Hr : last_val rest k = None) by (apply (proj2 (IH k)); intros i v Hin; exact (H i v (or_intror Hin))).
    rewrite Hr. destruct (N.eqb_spec k' k) as [->|]; [|reflexivity]. exfalso. exact (H i' v' (or_introl eq_refl)).
Qed.

(* deserialising any entry list is a total function whose result holds, for every key that
   occurs, the value supplied last - repeated keys included *)
Lemma de_last_wins entries k :
  option_map snd (de entries k) = last_val entries k.
Proof.
  unfold de. rewrite aput_all_val. destruct (last_val entries k); reflexivity.
Qed.

(* round trip: deserialising a duplicate-free listing of a map gives the map's values back *)
Lemma de_ser_values l (m : amap) :
  lists l m -> forall k, option_map snd (de l k) = option_map snd (m k).
Proof.
  intros [Hnd Hl] k. rewrite de_last_wins.
  destruct (last_val l k) as [v|] eqn:E.
  - destruct (last_val_supplied l k v E) as [i Hi]. apply Hl in Hi. rewrite Hi. reflexivity.
  - destruct (m k) as [[i v]|] eqn:Em; [|reflexivity].
    apply Hl in Em. rewrite last_val_none in E. exfalso. exact (E i v Em).
Qed.

(* parallel extend / collect: whatever order the items are inserted in, the resulting key set
   is old keys + supplied keys, and a supplied key maps to one of the values supplied for it *)
Lemma par_extend_any_order items perm (m : amap) :
  Permutation items perm ->
  forall k, (aput_all m perm k <> None <-> (m k <> None \/ exists i v, In (k, i, v) items)) /\
            (forall v, option_map snd (aput_all m perm k) = Some v ->
               supplied items k v \/ ((forall i v', ~ In (k, i, v') items) /\ option_map snd (m k) = Some v)).
Proof.
  intros Hp k.
  pose proof (aput_all_val perm m k) as Hv.
  split.
  - destruct (last_val perm k) as [v|] eqn:E.
    + split; intros _.
      * right. destruct (last_val_supplied perm k v E) as [i Hi]. exists i, v.
        eapply Permutation_in; [apply Permutation_sym; exact Hp | exact Hi].
      * destruct (aput_all m perm k); [discriminate|]. discriminate.
    + rewrite last_val_none in E.
      split.
      * intros Hn. left. destruct (m k); [discriminate|]. destruct (aput_all m perm k); [|congruence]. discriminate.
      * intros [Hm | (i & v & Hin)].
        -- destruct (aput_all m perm k); [discriminate|]. destruct (m k); [discriminate|congruence].
        -- exfalso. apply (E i v). eapply Permutation_in; eauto.
  - intros v Hs. rewrite Hs in Hv.
    destruct (last_val perm k) as [v'|] eqn:E.
    + injection Hv as ->. left. destruct (last_val_supplied perm k v' E) as [i Hi]. exists i.
      eapply Permutation_in; [apply Permutation_sym; exact Hp | exact Hi].
    + right. split; [|congruence]. rewrite last_val_none in E. intros i v' Hin.
      apply (E i v'). eapply Permutation_in; eauto.
Qed.

Lemma visitors_total_true : visitors_total = true.
Proof. vm_compute. reflexivity. Qed.
