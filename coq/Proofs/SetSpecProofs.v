From Flurry Require Import Model.SetSpec.
From Coq Require Import NArith List Bool.

Lemma mem_n_In x l : mem_n x l = true <-> In x l.
Proof.
  unfold mem_n. rewrite existsb_exists. split.
  - intros [y [Hy E]]. apply N.eqb_eq in E. subst. exact Hy.
  - intros H. exists x. split; [exact H | apply N.eqb_refl].
Qed.

Lemma subset_b_spec a b : subset_b a b = true <-> (forall x, In x a -> In x b).
Proof.
  unfold subset_b. rewrite forallb_forall. split.
  - intros H x Hx. apply mem_n_In. exact (H x Hx).
  - intros H x Hx. apply mem_n_In. exact (H x Hx).
Qed.

Lemma superset_b_spec a b : superset_b a b = true <-> (forall x, In x b -> In x a).
Proof. unfold superset_b. apply subset_b_spec. Qed.

Lemma disjoint_b_spec a b : disjoint_b a b = true <-> (forall x, In x a -> ~ In x b).
Proof.
  unfold disjoint_b. rewrite forallb_forall. split.
  - intros H x Hx Hb. specialize (H x Hx). apply negb_true_iff in H.
    apply mem_n_In in Hb. congruence.
  - intros H x Hx. apply negb_true_iff. destruct (mem_n x b) eqn:E; [|reflexivity].
    apply mem_n_In in E. exfalso. exact (H x Hx E).
Qed.

Lemma seteq_b_spec a b : seteq_b a b = true <-> (forall x, In x a <-> In x b).
Proof.
  unfold seteq_b. rewrite andb_true_iff, !subset_b_spec. split.
  - intros [H1 H2] x. split; [apply H1 | apply H2].
  - intros H. split; intros x Hx; apply H; exact Hx.
Qed.

(* the relations a user relies on: every set is a subset and a superset of itself and of any set
   with the same elements, whatever their sizes *)
Lemma subset_refl a : subset_b a a = true.
Proof. apply subset_b_spec. auto. Qed.

Lemma equal_sets_are_subsets a b : seteq_b a b = true -> subset_b a b = true /\ superset_b a b = true.
Proof.
  intros H0. pose proof (proj1 (seteq_b_spec a b) H0) as H. split.
  - apply subset_b_spec. intros x Hx. apply H. exact Hx.
  - apply superset_b_spec. intros x Hx. apply H. exact Hx.
Qed.

Lemma rel_check_ok a b r :
  rel_check a b r = 0%N <->
  a_sub r = subset_b a b /\ a_sup r = superset_b a b /\ a_dis r = disjoint_b a b /\ a_eq r = seteq_b a b.
Proof.
  unfold rel_check.
  destruct (Bool.eqb (a_sub r) (subset_b a b)) eqn:E1; cbn [negb].
  2:{ split; [discriminate|]. intros [H _]. rewrite H, Bool.eqb_reflx in E1. discriminate. }
  destruct (Bool.eqb (a_sup r) (superset_b a b)) eqn:E2; cbn [negb].
  2:{ split; [discriminate|]. intros [_ [H _]]. rewrite H, Bool.eqb_reflx in E2. discriminate. }
  destruct (Bool.eqb (a_dis r) (disjoint_b a b)) eqn:E3; cbn [negb].
  2:{ split; [discriminate|]. intros [_ [_ [H _]]]. rewrite H, Bool.eqb_reflx in E3. discriminate. }
  destruct (Bool.eqb (a_eq r) (seteq_b a b)) eqn:E4; cbn [negb].
  2:{ split; [discriminate|]. intros [_ [_ [_ H]]]. rewrite H, Bool.eqb_reflx in E4. discriminate. }
  apply Bool.eqb_prop in E1, E2, E3, E4. split; [intros _; auto | reflexivity].
Qed.
