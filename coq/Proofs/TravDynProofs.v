(* Iterators across concurrent resizes: the dynamic part (migration steps of `transfer`). *)
From Flurry Require Import Model.Trav Model.TravDyn.
From Flurry Require Import Proofs.TravProofs.
From Coq Require Import List Arith Lia Permutation Bool.
Import ListNotations.
Open Scope nat_scope.

(* ====================================================================== *)
(* set_nth                                                                 *)
(* ====================================================================== *)
Lemma set_nth_length (A : Type) (n : nat) (x : A) (l : list A) :
  length (set_nth n x l) = length l.
Proof. revert n. induction l as [|a l IH]; intros [|n]; simpl; auto. Qed.

Lemma nth_set_nth_eq (A : Type) (n : nat) (x d : A) (l : list A) :
  n < length l -> nth n (set_nth n x l) d = x.
Proof.
  revert n. induction l as [|a l IH]; intros [|n] H; simpl in *; try lia; auto.
  apply IH. lia.
Qed.

Lemma nth_set_nth_neq (A : Type) (n k : nat) (x d : A) (l : list A) :
  k <> n -> nth k (set_nth n x l) d = nth k l d.
Proof.
  revert n k. induction l as [|a l IH]; intros [|n] [|k] H; simpl in *; try lia; auto.
Qed.

Lemma tlen_set_nth_inner (f : forest) (j k : nat) (t : list bin) :
  length t = tlen_of f j -> tlen_of (set_nth j t f) k = tlen_of f k.
Proof.
  intros Ht. unfold tlen_of, table_of in *.
  destruct (Nat.eq_dec k j) as [->|Hne].
  - destruct (Nat.lt_ge_cases j (length f)) as [Hlt|Hge].
    + rewrite nth_set_nth_eq by exact Hlt. exact Ht.
    + rewrite !nth_overflow; [reflexivity | exact Hge | rewrite set_nth_length; exact Hge].
  - rewrite nth_set_nth_neq by exact Hne. reflexivity.
Qed.

(* ====================================================================== *)
(* Shape of the migrated forest                                            *)
(* ====================================================================== *)
Lemma migrate_length hi f j i : length (migrate hi f j i) = length f.
Proof. unfold migrate. rewrite !set_nth_length. reflexivity. Qed.

Lemma migrate_tlen hi f j i k : tlen_of (migrate hi f j i) k = tlen_of f k.
Proof.
  unfold migrate. rewrite tlen_set_nth_inner.
  - apply tlen_set_nth_inner. rewrite set_nth_length. reflexivity.
  - rewrite !set_nth_length. rewrite tlen_set_nth_inner; [reflexivity|].
    rewrite set_nth_length. reflexivity.
Qed.

Lemma migrate_table_other hi f j i k : k <> j -> k <> S j ->
  table_of (migrate hi f j i) k = table_of f k.
Proof.
  intros H1 H2. unfold migrate, table_of. rewrite !nth_set_nth_neq by assumption. reflexivity.
Qed.

Lemma migrate_table_j hi f j i : S j < length f ->
  table_of (migrate hi f j i) j = set_nth i BMoved (table_of f j).
Proof.
  intros H. unfold migrate. unfold table_of at 1.
  rewrite nth_set_nth_neq by lia. rewrite nth_set_nth_eq by lia. reflexivity.
Qed.

Lemma migrate_table_Sj hi f j i : S j < length f ->
  table_of (migrate hi f j i) (S j) =
  set_nth (i + tlen_of f j) (mk_bin (filter hi (bin_list (nth i (table_of f j) BNull))))
    (set_nth i (mk_bin (filter (fun x => negb (hi x)) (bin_list (nth i (table_of f j) BNull))))
       (table_of f (S j))).
Proof.
  intros H. unfold migrate. unfold table_of at 1.
  rewrite nth_set_nth_eq by (rewrite set_nth_length; lia). reflexivity.
Qed.

Lemma migrate_cons_S hi t f j i : migrate hi (t :: f) (S j) i = t :: migrate hi f j i.
Proof. reflexivity. Qed.

Lemma can_migrate_spec f j i : can_migrate f j i = true ->
  S j < length f /\ i < tlen_of f j /\ nth i (table_of f j) BNull <> BMoved /\
  nth i (table_of f (S j)) BNull = BNull /\ nth (i + tlen_of f j) (table_of f (S j)) BNull = BNull.
Proof.
  unfold can_migrate. intros H.
  apply andb_prop in H as [H H5]. apply andb_prop in H as [H H4].
  apply andb_prop in H as [H H3]. apply andb_prop in H as [H1 H2].
  apply Nat.ltb_lt in H1. apply Nat.ltb_lt in H2.
  repeat split; try assumption.
  - intros E. rewrite E in H3. discriminate.
  - destruct (nth i (table_of f (S j)) BNull); try discriminate; reflexivity.
  - destruct (nth (i + tlen_of f j) (table_of f (S j)) BNull); try discriminate; reflexivity.
Qed.

Lemma can_migrate_cons_S t f j i : can_migrate (t :: f) (S j) i = can_migrate f j i.
Proof. reflexivity. Qed.

(* ====================================================================== *)
(* T1a: a migration step preserves well-formedness                         *)
(* ====================================================================== *)
Definition no_moved (t : list bin) : bool :=
  forallb (fun b => match b with BMoved => false | _ => true end) t.

Lemma wf_cons t g : wf_forest (t :: g) =
  match g with
  | [] => no_moved t
  | t' :: _ => Nat.eqb (length t') (2 * length t) && Nat.ltb 0 (length t) && wf_forest g
  end.
Proof. destruct g; reflexivity. Qed.

Lemma no_moved_set_nth t k l : no_moved t = true -> no_moved (set_nth k (mk_bin l) t) = true.
Proof.
  revert k. induction t as [|a t IH]; intros k H; [reflexivity|].
  simpl in H. apply andb_prop in H as [Ha Ht].
  destruct k as [|k]; simpl.
  - rewrite Ht. destruct l; reflexivity.
  - rewrite Ha. apply IH. exact Ht.
Qed.

Lemma mk_bin_not_moved l : mk_bin l <> BMoved.
Proof. destruct l; discriminate. Qed.

Lemma bin_list_mk_bin l : bin_list (mk_bin l) = l.
Proof. destruct l; reflexivity. Qed.

Theorem migrate_wf : forall hi f j i, wf_forest f = true -> can_migrate f j i = true ->
  wf_forest (migrate hi f j i) = true.
Proof.
  intros hi f. induction f as [|t f IH]; intros j i Hwf Hc.
  - apply can_migrate_spec in Hc as [H _]. simpl in H. lia.
  - destruct j as [|j].
    + apply can_migrate_spec in Hc as [H _].
      destruct f as [|t' rest]; [simpl in H; lia|].
      rewrite wf_cons in Hwf. apply andb_prop in Hwf as [Hwf Hrest].
      unfold migrate, table_of. simpl nth. simpl set_nth.
      rewrite wf_cons. rewrite !set_nth_length. rewrite Hwf. simpl andb.
      destruct rest as [|t'' rest'].
      * apply (no_moved_set_nth _ _ _ (no_moved_set_nth _ _ _ Hrest)).
      * rewrite wf_cons in Hrest. rewrite !set_nth_length. exact Hrest.
    + rewrite migrate_cons_S. rewrite can_migrate_cons_S in Hc.
      pose proof Hc as Hc'. apply can_migrate_spec in Hc' as [Hlen _].
      destruct f as [|t' rest]; [simpl in Hlen; lia|].
      rewrite wf_cons in Hwf. apply andb_prop in Hwf as [Hwf Hrest].
      specialize (IH j i Hrest Hc).
      pose proof (migrate_tlen hi (t' :: rest) j i 0) as Hl0.
      pose proof (migrate_length hi (t' :: rest) j i) as Hl.
      destruct (migrate hi (t' :: rest) j i) as [|u g]; [simpl in Hl; lia|].
      rewrite wf_cons. unfold tlen_of, table_of in Hl0. simpl in Hl0. rewrite Hl0.
      rewrite Hwf. exact IH.
Qed.

(* ====================================================================== *)
(* T1b: a migration step preserves the contents (up to order)              *)
(* ====================================================================== *)
Lemma filter_split_perm (A : Type) (p : A -> bool) (l : list A) :
  Permutation (filter (fun x => negb (p x)) l ++ filter p l) l.
Proof.
  induction l as [|a l IH]; simpl; [constructor|].
  destruct (p a); simpl.
  - apply Permutation_sym. apply Permutation_cons_app. apply Permutation_sym. exact IH.
  - constructor. exact IH.
Qed.

Lemma flat_map_perm_pointwise (A B : Type) (g g' : A -> list B) (l : list A) :
  (forall x, In x l -> Permutation (g x) (g' x)) -> Permutation (flat_map g l) (flat_map g' l).
Proof.
  induction l as [|a l IH]; intros H; simpl; [constructor|].
  apply Permutation_app; [apply H; left; reflexivity | apply IH; intros x Hx; apply H; right; exact Hx].
Qed.

Section Migrate.
  Variable hi : node -> bool.
  Variable f : forest.
  Variables j i : nat.
  Hypothesis Hwf : wf_forest f = true.
  Hypothesis Hc : can_migrate f j i = true.

  Let f' := migrate hi f j i.
  Let n := tlen_of f j.
  Let b := nth i (table_of f j) BNull.

  (* tables strictly after j+1 are untouched *)
  Lemma reach_above : forall d k x, S j < k -> reach_bin d f' k x = reach_bin d f k x.
  Proof.
    induction d as [|d IH]; intros k x Hk; [reflexivity|].
    simpl. unfold f'. rewrite migrate_table_other by lia. rewrite migrate_tlen.
    fold f'. rewrite !IH by lia. reflexivity.
  Qed.

  (* the bins of table j+1 other than the two targets are untouched *)
  Lemma reach_Sj_other : forall d x, x <> i -> x <> i + n ->
    reach_bin d f' (S j) x = reach_bin d f (S j) x.
  Proof.
    intros d x H1 H2. destruct (can_migrate_spec _ _ _ Hc) as (Hlen & _).
    destruct d as [|d]; [reflexivity|]. simpl.
    unfold f'. rewrite migrate_table_Sj by exact Hlen. rewrite migrate_tlen. fold f'.
    rewrite !nth_set_nth_neq by (fold n; lia).
    rewrite !reach_above by lia. reflexivity.
  Qed.

  Lemma reach_Sj_lo : forall d,
    reach_bin (S d) f' (S j) i = filter (fun x => negb (hi x)) (bin_list b).
  Proof.
    intros d. destruct (can_migrate_spec _ _ _ Hc) as (Hlen & Hi & _).
    destruct (wf_double f j Hwf Hlen) as [Hdbl Hpos].
    simpl. unfold f'. rewrite migrate_table_Sj by exact Hlen.
    rewrite nth_set_nth_neq by lia.
    rewrite nth_set_nth_eq by (fold (tlen_of f (S j)); lia).
    fold b. destruct (filter (fun x => negb (hi x)) (bin_list b)); reflexivity.
  Qed.

  Lemma reach_Sj_hi : forall d,
    reach_bin (S d) f' (S j) (i + n) = filter hi (bin_list b).
  Proof.
    intros d. destruct (can_migrate_spec _ _ _ Hc) as (Hlen & Hi & _).
    destruct (wf_double f j Hwf Hlen) as [Hdbl Hpos].
    simpl. unfold f'. rewrite migrate_table_Sj by exact Hlen.
    rewrite nth_set_nth_eq by (rewrite set_nth_length; fold (tlen_of f (S j)); unfold n; lia).
    fold b. destruct (filter hi (bin_list b)); reflexivity.
  Qed.

  (* at table j: the migrated bin's cone is a permutation of the old bin; all others are equal *)
  Lemma reach_j : forall d x, 2 <= d ->
    Permutation (reach_bin d f' j x) (reach_bin d f j x).
  Proof.
    intros d x Hd. destruct (can_migrate_spec _ _ _ Hc) as (Hlen & Hi & Hnm & _).
    destruct d as [|[|d]]; try lia.
    destruct (Nat.eq_dec x i) as [->|Hne].
    - change (reach_bin (S (S d)) f' j i) with
        (match nth i (table_of f' j) BNull with
         | BMoved => reach_bin (S d) f' (S j) i ++ reach_bin (S d) f' (S j) (i + tlen_of f' j)
         | b0 => bin_list b0 end).
      unfold f' at 1. rewrite migrate_table_j by exact Hlen.
      rewrite nth_set_nth_eq by exact Hi.
      unfold f' at 3. rewrite migrate_tlen. fold n.
      rewrite reach_Sj_lo, reach_Sj_hi.
      replace (reach_bin (S (S d)) f j i) with (bin_list b).
      + apply filter_split_perm.
      + simpl. unfold b. destruct (nth i (table_of f j) BNull); try reflexivity.
        exfalso. apply Hnm. reflexivity.
    - change (reach_bin (S (S d)) f' j x) with
        (match nth x (table_of f' j) BNull with
         | BMoved => reach_bin (S d) f' (S j) x ++ reach_bin (S d) f' (S j) (x + tlen_of f' j)
         | b0 => bin_list b0 end).
      change (reach_bin (S (S d)) f j x) with
        (match nth x (table_of f j) BNull with
         | BMoved => reach_bin (S d) f (S j) x ++ reach_bin (S d) f (S j) (x + tlen_of f j)
         | b0 => bin_list b0 end).
      unfold f' at 1. rewrite migrate_table_j by exact Hlen.
      rewrite nth_set_nth_neq by exact Hne.
      unfold f' at 3. rewrite migrate_tlen. fold n.
      destruct (Nat.lt_ge_cases x n) as [Hx|Hx].
      + rewrite !reach_Sj_other by (unfold n in *; lia). apply Permutation_refl.
      + rewrite (nth_overflow (table_of f j)) by exact Hx. apply Permutation_refl.
  Qed.

  (* at and before table j, given enough depth to see through the new marker *)
  Lemma reach_below : forall k d j0 x, j0 + k = j -> k + 2 <= d ->
    Permutation (reach_bin d f' j0 x) (reach_bin d f j0 x).
  Proof.
    induction k as [|k IH]; intros d j0 x Hj Hd.
    - replace j0 with j by lia. apply reach_j. lia.
    - destruct d as [|d]; [lia|]. simpl.
      unfold f' at 1. rewrite migrate_table_other by lia.
      unfold f' at 3. rewrite migrate_tlen.
      destruct (nth x (table_of f j0) BNull); try apply Permutation_refl.
      apply Permutation_app; apply IH; lia.
  Qed.

  Theorem migrate_contents_perm_sec : Permutation (contents f') (contents f).
  Proof.
    destruct (can_migrate_spec _ _ _ Hc) as (Hlen & _).
    unfold contents.
    replace (length f') with (length f) by (symmetry; apply migrate_length).
    replace (tlen_of f' 0) with (tlen_of f 0) by (symmetry; apply migrate_tlen).
    apply flat_map_perm_pointwise. intros x _.
    apply (reach_below j); lia.
  Qed.
End Migrate.

Theorem migrate_contents_perm : forall hi f j i, wf_forest f = true -> can_migrate f j i = true ->
  Permutation (contents (migrate hi f j i)) (contents f).
Proof. intros. apply migrate_contents_perm_sec; assumption. Qed.

(* ====================================================================== *)
(* T1c: an iterator started after any number of migration steps yields exactly the entries *)
(* ====================================================================== *)
Theorem migrate_iterate_perm : forall hi f j i, wf_forest f = true -> can_migrate f j i = true ->
  Permutation (iterate (migrate hi f j i)) (iterate f).
Proof.
  intros hi f j i Hwf Hc.
  rewrite (iterate_exact _ (migrate_wf hi f j i Hwf Hc)), (iterate_exact _ Hwf).
  apply migrate_contents_perm; assumption.
Qed.

Lemma migrate_guarded_wf hi f ji : wf_forest f = true -> wf_forest (migrate_guarded hi f ji) = true.
Proof.
  intros Hwf. unfold migrate_guarded. destruct (can_migrate f (fst ji) (snd ji)) eqn:E; [|exact Hwf].
  apply migrate_wf; assumption.
Qed.

Lemma migrate_guarded_contents hi f ji : wf_forest f = true ->
  Permutation (contents (migrate_guarded hi f ji)) (contents f).
Proof.
  intros Hwf. unfold migrate_guarded. destruct (can_migrate f (fst ji) (snd ji)) eqn:E;
    [|apply Permutation_refl].
  apply migrate_contents_perm; assumption.
Qed.

Theorem migrates_wf : forall hi steps f, wf_forest f = true -> wf_forest (migrates hi steps f) = true.
Proof.
  intros hi steps. induction steps as [|ji rest IH]; intros f Hwf; simpl; [exact Hwf|].
  apply IH. apply migrate_guarded_wf. exact Hwf.
Qed.

Theorem migrates_contents_perm : forall hi steps f, wf_forest f = true ->
  Permutation (contents (migrates hi steps f)) (contents f).
Proof.
  intros hi steps. induction steps as [|ji rest IH]; intros f Hwf; simpl; [apply Permutation_refl|].
  eapply Permutation_trans; [apply IH; apply migrate_guarded_wf; exact Hwf|].
  apply migrate_guarded_contents. exact Hwf.
Qed.

Theorem migrates_iterate_perm : forall hi steps f, wf_forest f = true ->
  Permutation (iterate (migrates hi steps f)) (iterate f).
Proof.
  intros hi steps f Hwf.
  rewrite (iterate_exact _ (migrates_wf hi steps f Hwf)), (iterate_exact _ Hwf).
  apply migrates_contents_perm. exact Hwf.
Qed.

Print Assumptions migrate_wf.
Print Assumptions migrate_contents_perm.
Print Assumptions migrate_iterate_perm.
Print Assumptions migrates_iterate_perm.

(* ====================================================================== *)
(* Tier 2: a live iterator interleaved with migration steps (drain_dyn)    *)
(* ====================================================================== *)
Lemma in_all_nodes f x :
  In x (all_nodes f) <-> exists k m, In x (bin_list (nth m (table_of f k) BNull)).
Proof.
  unfold all_nodes. rewrite in_flat_map. split.
  - intros (t & Ht & Hx). apply in_flat_map in Hx as (b & Hb & Hx).
    apply (In_nth _ _ []) in Ht as (k & Hk & Ek). apply (In_nth _ _ BNull) in Hb as (m & Hm & Em).
    exists k, m. unfold table_of. rewrite Ek, Em. exact Hx.
  - intros (k & m & Hx).
    destruct (Nat.lt_ge_cases k (length f)) as [Hk|Hk].
    + destruct (Nat.lt_ge_cases m (length (table_of f k))) as [Hm|Hm].
      * exists (table_of f k). split; [apply nth_In; exact Hk|]. apply in_flat_map.
        exists (nth m (table_of f k) BNull). split; [apply nth_In; exact Hm | exact Hx].
      * rewrite nth_overflow in Hx by exact Hm. simpl in Hx. contradiction.
    + unfold table_of in Hx. rewrite (nth_overflow f) in Hx by exact Hk.
      destruct m; simpl in Hx; contradiction.
Qed.

(* a migration step stores no node that was not already stored *)
Lemma migrate_all_nodes_incl hi f j i : S j < length f ->
  incl (all_nodes (migrate hi f j i)) (all_nodes f).
Proof.
  intros Hlen x Hx. apply in_all_nodes in Hx as (k & m & Hx). apply in_all_nodes.
  destruct (Nat.eq_dec k j) as [->|Hkj].
  - rewrite migrate_table_j in Hx by exact Hlen.
    destruct (Nat.eq_dec m i) as [->|Hm].
    + destruct (Nat.lt_ge_cases i (length (table_of f j))) as [Hi|Hi].
      * rewrite nth_set_nth_eq in Hx by exact Hi. simpl in Hx. contradiction.
      * rewrite nth_overflow in Hx by (rewrite set_nth_length; exact Hi). simpl in Hx. contradiction.
    + rewrite nth_set_nth_neq in Hx by exact Hm. exists j, m. exact Hx.
  - destruct (Nat.eq_dec k (S j)) as [->|HkS].
    + rewrite migrate_table_Sj in Hx by exact Hlen.
      destruct (Nat.eq_dec m (i + tlen_of f j)) as [->|Hm1].
      * destruct (Nat.lt_ge_cases (i + tlen_of f j) (length (table_of f (S j)))) as [Hi|Hi].
        -- rewrite nth_set_nth_eq in Hx by (rewrite set_nth_length; exact Hi).
           rewrite bin_list_mk_bin in Hx. apply filter_In in Hx as [Hx _]. exists j, i. exact Hx.
        -- rewrite nth_overflow in Hx by (rewrite !set_nth_length; exact Hi). simpl in Hx. contradiction.
      * rewrite nth_set_nth_neq in Hx by exact Hm1.
        destruct (Nat.eq_dec m i) as [->|Hm2].
        -- destruct (Nat.lt_ge_cases i (length (table_of f (S j)))) as [Hi|Hi].
           ++ rewrite nth_set_nth_eq in Hx by exact Hi. rewrite bin_list_mk_bin in Hx.
              apply filter_In in Hx as [Hx _]. exists j, i. exact Hx.
           ++ rewrite nth_overflow in Hx by (rewrite set_nth_length; exact Hi). simpl in Hx. contradiction.
        -- rewrite nth_set_nth_neq in Hx by exact Hm2. exists (S j), m. exact Hx.
    + rewrite migrate_table_other in Hx by assumption. exists k, m. exact Hx.
Qed.

Lemma recover_rest : forall fuel it n, i_rest (recover fuel it n) = i_rest it.
Proof.
  induction fuel as [|fuel IH]; intros it n; simpl; [reflexivity|].
  destruct (i_stack it) as [|s rest].
  - destruct (Nat.leb n (i_index it + i_base_size it)); reflexivity.
  - destruct (Nat.ltb (i_index it + f_len s) n); [reflexivity|]. rewrite IH. reflexivity.
Qed.

Lemma after_bin_rest it i n : i_rest (after_bin it i n) = i_rest it.
Proof.
  unfold after_bin. destruct (i_stack it) eqn:E.
  - destruct (Nat.leb n (i + i_base_size it)); reflexivity.
  - apply recover_rest.
Qed.

Ltac plain_case IH HfA Er Hb H :=
  simpl bin_list in H, Hb;
  match type of H with
  | match ?bl with [] => _ | _ :: _ => _ end = _ => destruct bl as [|x0 r0] eqn:Ebl
  end;
  [ apply (IH _ _ _ _ HfA) in H; [exact H | rewrite after_bin_rest, Er; intros y []]
  | injection H as Ho Hit; subst; split;
    [ intros y Hy; injection Hy as Hy; subst; apply Hb; left; reflexivity
    | simpl; intros y Hy; apply Hb; right; exact Hy ] ].

(* one call of next() yields, and keeps as pending rest, only nodes stored in the forest *)
Lemma advance_sound (A : list node) : forall fuel f it o it',
  incl (all_nodes f) A -> incl (i_rest it) A -> advance fuel f it = (o, it') ->
  (forall x, o = Some x -> In x A) /\ incl (i_rest it') A.
Proof.
  induction fuel as [|fuel IH]; intros f it o it' HfA Hr H; rewrite advance_eq in H.
  - destruct (i_rest it) as [|x r] eqn:Er.
    + injection H as Ho Hit; subst. split; [discriminate|]. rewrite Er. intros y [].
    + injection H as Ho Hit; subst. split.
      * intros y Hy. injection Hy as Hy; subst. apply Hr. left; reflexivity.
      * simpl. intros y Hy. apply Hr. right; exact Hy.
  - destruct (i_rest it) as [|x r] eqn:Er.
    + destruct (i_tab it) as [t|] eqn:Et.
      * cbv zeta in H.
        destruct (Nat.leb (i_base_limit it) (i_base_index it) || Nat.leb (tlen_of f t) (i_index it)).
        -- injection H as Ho Hit; subst. split; [discriminate|]. rewrite Er. intros y [].
        -- pose proof (fun y (Hy : In y (bin_list (nth (i_index it) (table_of f t) BNull))) =>
                         HfA y (proj2 (in_all_nodes f y) (ex_intro _ t (ex_intro _ (i_index it) Hy)))) as Hb.
           destruct (nth (i_index it) (table_of f t) BNull) eqn:Eb.
           ++ plain_case IH HfA Er Hb H.
           ++ plain_case IH HfA Er Hb H.
           ++ plain_case IH HfA Er Hb H.
           ++ apply (IH _ _ _ _ HfA) in H; [exact H | simpl; intros y []].
      * injection H as Ho Hit; subst. split; [discriminate|]. rewrite Er. intros y [].
    + injection H as Ho Hit; subst. split.
      * intros y Hy. injection Hy as Hy; subst. apply Hr. left; reflexivity.
      * simpl. intros y Hy. apply Hr. right; exact Hy.
Qed.

(* PARTIAL form of (b), kept as an independent and more elementary result: whatever the schedule,
   the fuel and the iterator state (no well-formedness, no validity of the state needed), an
   interleaved run yields only nodes that are stored somewhere in the initial forest (all_nodes):
   neither the migration steps nor the traversal invent entries.
   What is missing w.r.t. (b): all_nodes f also counts bins that are NOT reachable from table 0.
   The full (b), together with (a) and (c), is proved at the end of this file
   (drain_dyn_yields_contents, drain_dyn_no_duplicates, drain_dyn_complete). *)
Theorem drain_dyn_sound_partial : forall hi sched fuel f it,
  incl (i_rest it) (all_nodes f) -> incl (drain_dyn hi sched fuel f it) (all_nodes f).
Proof.
  intros hi sched fuel.
  assert (G : forall A f it, incl (all_nodes f) A -> incl (i_rest it) A ->
                             incl (drain_dyn hi sched fuel f it) A).
  { induction sched as [|[ji|] s IH]; intros A f it HfA Hr; simpl.
    - intros y [].
    - apply IH; [|exact Hr]. unfold migrate_guarded.
      destruct (can_migrate f (fst ji) (snd ji)) eqn:E; [|exact HfA].
      apply can_migrate_spec in E as [Hlen _]. intros y Hy. apply HfA.
      apply (migrate_all_nodes_incl hi f (fst ji) (snd ji) Hlen). exact Hy.
    - destruct (advance fuel f it) as [o it'] eqn:E.
      destruct (advance_sound A _ _ _ _ _ HfA Hr E) as [Ho Hr'].
      destruct o as [x|]; [|intros y []].
      intros y [<-|Hy]; [apply Ho; reflexivity | apply (IH A f it' HfA Hr'); exact Hy]. }
  intros f it Hr. apply (G _ f it (incl_refl _) Hr).
Qed.

(* (b) for forests without garbage in unreachable bins *)
Theorem drain_dyn_sound : forall hi sched fuel f x,
  incl (all_nodes f) (contents f) ->
  In x (drain_dyn hi sched fuel f (new_iter f)) -> In x (contents f).
Proof.
  intros hi sched fuel f x Hclean Hx. apply Hclean.
  apply (drain_dyn_sound_partial hi sched fuel f (new_iter f)); [|exact Hx].
  destruct f; simpl; intros y [].
Qed.

Print Assumptions drain_dyn_sound_partial.
Print Assumptions drain_dyn_sound.

(* the state in which a resize begins (one full table, a fresh empty next table) has no garbage,
   so drain_dyn_sound applies to every run that starts there *)
Lemma nth_repeat_null m k : nth m (repeat BNull k) BNull = BNull.
Proof. revert m. induction k as [|k IH]; intros [|m]; simpl; auto. Qed.

Lemma resize_start_clean t k : incl (all_nodes [t; repeat BNull k]) (contents [t; repeat BNull k]).
Proof.
  intros x Hx. apply in_all_nodes in Hx as (j & m & Hx).
  destruct j as [|[|j]].
  - unfold table_of in Hx. simpl nth in Hx.
    destruct (Nat.lt_ge_cases m (length t)) as [Hm|Hm].
    + unfold contents. apply in_flat_map. exists m. split; [apply in_seq; unfold tlen_of, table_of; simpl; lia|].
      simpl. unfold table_of at 1. simpl nth.
      destruct (nth m t BNull); try exact Hx. simpl in Hx. contradiction.
    + rewrite nth_overflow in Hx by exact Hm. simpl in Hx. contradiction.
  - unfold table_of in Hx. simpl nth in Hx. rewrite nth_repeat_null in Hx. simpl in Hx. contradiction.
  - unfold table_of in Hx. simpl nth in Hx. destruct j, m; simpl in Hx; contradiction.
Qed.

Theorem drain_dyn_sound_resize_start : forall hi sched fuel t k x,
  In x (drain_dyn hi sched fuel [t; repeat BNull k] (new_iter [t; repeat BNull k])) ->
  In x (contents [t; repeat BNull k]).
Proof. intros hi sched fuel t k x. apply drain_dyn_sound. apply resize_start_clean. Qed.

Print Assumptions drain_dyn_sound_resize_start.

(* ---------------------------------------------------------------------- *)
(* The remaining output of an iterator standing between two bins of its base table, and its
   stability under a migration step taken at that moment.                                    *)
(* ---------------------------------------------------------------------- *)
Lemma total_bins_ext : forall f g, length f = length g ->
  (forall k, tlen_of f k = tlen_of g k) -> total_bins f = total_bins g.
Proof.
  induction f as [|t f IH]; intros [|u g] Hl Ht; simpl in Hl; try discriminate; [reflexivity|].
  unfold total_bins in *. cbn [fold_right]. rewrite (IH g); [|lia|intros k; apply (Ht (S k))].
  specialize (Ht 0). unfold tlen_of, table_of in Ht. simpl in Ht. lia.
Qed.

Lemma migrate_guarded_length hi f ji : length (migrate_guarded hi f ji) = length f.
Proof. unfold migrate_guarded. destruct (can_migrate _ _ _); [apply migrate_length|reflexivity]. Qed.

Lemma migrate_guarded_tlen hi f ji k : tlen_of (migrate_guarded hi f ji) k = tlen_of f k.
Proof. unfold migrate_guarded. destruct (can_migrate _ _ _); [apply migrate_tlen|reflexivity]. Qed.

Lemma migrate_guarded_trav_fuel hi f ji : trav_fuel (migrate_guarded hi f ji) = trav_fuel f.
Proof.
  unfold trav_fuel. rewrite migrate_guarded_length.
  rewrite (total_bins_ext (migrate_guarded hi f ji) f); [reflexivity | apply migrate_guarded_length |].
  intros k. apply migrate_guarded_tlen.
Qed.

Lemma reach_guarded_perm hi f ji x : wf_forest f = true ->
  Permutation (reach_bin (S (length f)) (migrate_guarded hi f ji) 0 x) (reach_bin (S (length f)) f 0 x).
Proof.
  intros Hwf. unfold migrate_guarded. destruct (can_migrate f (fst ji) (snd ji)) eqn:E;
    [|apply Permutation_refl].
  pose proof (can_migrate_spec _ _ _ E) as (Hlen & _).
  apply (reach_below hi f (fst ji) (snd ji) Hwf E (fst ji)); lia.
Qed.

Lemma steps_from_le f D b k : b + k = tlen_of f 0 ->
  steps_from f D b k <= steps_from f D 0 (tlen_of f 0).
Proof.
  intros H. rewrite <- H. unfold steps_from. rewrite seq_app, map_app, list_sum_app. simpl. lia.
Qed.

(* what an iterator standing at base index b (with pending rest r of the previous bin) still yields *)
Lemma future_base f F b r c2 : wf_forest f = true -> b <= tlen_of f 0 -> trav_fuel f <= F ->
  drain (length r + (length (flat_map (reach_bin (S (length f)) f 0) (seq b (tlen_of f 0 - b))) + c2)) F f
        (set_rest (base_it (tlen_of f 0) b) r)
  = r ++ flat_map (reach_bin (S (length f)) f 0) (seq b (tlen_of f 0 - b)).
Proof.
  intros Hwf Hb HF. rewrite drain_rest. f_equal.
  change (set_rest (base_it (tlen_of f 0) b) []) with (base_it (tlen_of f 0) b).
  rewrite (drain_base f Hwf (S (length f))); [ | lia | lia | ].
  - replace (b + (tlen_of f 0 - b)) with (tlen_of f 0) by lia.
    rewrite drain_exhausted, app_nil_r. reflexivity.
  - pose proof (steps_total f (S (length f)) Hwf) as H1.
    pose proof (steps_from_le f (S (length f)) b (tlen_of f 0 - b) ltac:(lia)) as H2.
    unfold steps_from in H2 at 2. unfold trav_fuel in HF. lia.
Qed.

(* PARTIAL special case, kept because it is stated on the plain static `drain`: a guarded
   migration step of ANY bin of ANY table, taken while the iterator stands between two bins of its
   base table (stack empty, base index b, possibly with a pending rest r of the bin it just left),
   permutes the remaining output of the iterator.  The general case (iterator anywhere, also in
   the middle of a descent) is fut_perm / drain_dyn_master at the end of this file. *)
Theorem base_future_migrate_perm_partial : forall hi f ji F b r c2,
  wf_forest f = true -> b <= tlen_of f 0 -> trav_fuel f <= F ->
  let calls := length r + (length (flat_map (reach_bin (S (length f)) f 0) (seq b (tlen_of f 0 - b))) + c2) in
  let it := set_rest (base_it (tlen_of f 0) b) r in
  Permutation (drain calls F (migrate_guarded hi f ji) it) (drain calls F f it).
Proof.
  intros hi f ji F b r c2 Hwf Hb HF. cbv zeta.
  set (f' := migrate_guarded hi f ji).
  assert (Hwf' : wf_forest f' = true) by (apply migrate_guarded_wf; exact Hwf).
  assert (E : tlen_of f' 0 = tlen_of f 0) by apply migrate_guarded_tlen.
  assert (HP : Permutation (flat_map (reach_bin (S (length f')) f' 0) (seq b (tlen_of f 0 - b)))
                           (flat_map (reach_bin (S (length f)) f 0) (seq b (tlen_of f 0 - b)))).
  { unfold f'. rewrite migrate_guarded_length.
    apply flat_map_perm_pointwise. intros x _. apply reach_guarded_perm. exact Hwf. }
  assert (H' := future_base f' F b r c2 Hwf').
  rewrite E in H'.
  rewrite (future_base f F b r c2 Hwf Hb HF).
  rewrite <- (Permutation_length HP).
  rewrite H'.
  - apply Permutation_app_head. exact HP.
  - exact Hb.
  - unfold f'. rewrite migrate_guarded_trav_fuel. exact HF.
Qed.

Print Assumptions base_future_migrate_perm_partial.

(* ====================================================================== *)
(* The live-iterator invariant and the closed form of the remaining output *)
(* ====================================================================== *)
(* the stack of a live iterator: every frame (t, n, idx) points at a forwarded bin idx of table t
   of length n, the table above a frame is the next table, and the current index is the low or
   the high image of the frame's index *)
Fixpoint valid_stack (f : forest) (t idx : nat) (st : list frame) (b : nat) : Prop :=
  match st with
  | [] => t = 0 /\ idx = b
  | s :: st' => t = S (f_tab s) /\ f_len s = tlen_of f (f_tab s) /\ f_idx s < f_len s /\
                (idx = f_idx s \/ idx = f_idx s + f_len s) /\
                nth (f_idx s) (table_of f (f_tab s)) BNull = BMoved /\
                valid_stack f (f_tab s) (f_idx s) st' b
  end.

Definition vstate (f : forest) (it : titer) : Prop :=
  exists t, i_tab it = Some t /\
            valid_stack f t (i_index it) (i_stack it) (i_base_index it) /\
            i_base_limit it = tlen_of f 0 /\ i_base_size it = tlen_of f 0 /\
            (i_stack it <> [] -> i_base_index it < tlen_of f 0).

(* what remains to be yielded above the current position *)
Fixpoint up (D : nat) (f : forest) (st : list frame) (idx b : nat) : list node :=
  match st with
  | [] => flat_map (reach_bin D f 0) (seq (S b) (tlen_of f 0 - S b))
  | s :: st' => (if Nat.eqb idx (f_idx s) then reach_bin D f (S (f_tab s)) (f_idx s + f_len s) else [])
                ++ up D f st' (f_idx s) b
  end.

Definition fut (D : nat) (f : forest) (it : titer) : list node :=
  i_rest it ++
  match i_tab it with
  | Some t => reach_bin D f t (i_index it) ++ up D f (i_stack it) (i_index it) (i_base_index it)
  | None => []
  end.

Lemma reach_depth : forall f d j i, length f <= j + d -> reach_bin (S d) f j i = reach_bin d f j i.
Proof.
  intros f. induction d as [|d IH]; intros j i H.
  - simpl. unfold table_of. rewrite (nth_overflow f) by lia. destruct i; reflexivity.
  - change (reach_bin (S (S d)) f j i) with
      (match nth i (table_of f j) BNull with
       | BMoved => reach_bin (S d) f (S j) i ++ reach_bin (S d) f (S j) (i + tlen_of f j)
       | b0 => bin_list b0 end).
    rewrite !IH by lia. reflexivity.
Qed.

Lemma reach_moved_D D f t idx : length f <= D -> nth idx (table_of f t) BNull = BMoved ->
  reach_bin D f t idx = reach_bin D f (S t) idx ++ reach_bin D f (S t) (idx + tlen_of f t).
Proof.
  intros HD Hm. destruct D as [|D].
  - exfalso. unfold table_of in Hm. rewrite (nth_overflow f) in Hm by lia. destruct idx; discriminate.
  - rewrite (reach_moved f D t idx Hm).
    rewrite !(reach_depth f D (S t)) by lia. reflexivity.
Qed.

Lemma reach_plain_D D f t idx : idx < tlen_of f t -> length f <= D ->
  nth idx (table_of f t) BNull <> BMoved ->
  reach_bin D f t idx = bin_list (nth idx (table_of f t) BNull).
Proof.
  intros Hi HD Hm. destruct D as [|D].
  - exfalso. rewrite tlen_of_ge in Hi by lia. lia.
  - apply reach_plain. exact Hm.
Qed.

Lemma reach_out D f t idx : tlen_of f t <= idx -> reach_bin D f t idx = [].
Proof.
  intros H. destruct D as [|D]; [reflexivity|]. simpl.
  rewrite nth_overflow by exact H. reflexivity.
Qed.

Lemma adv_guard fuel f it t : i_rest it = [] -> i_tab it = Some t ->
  (i_base_limit it <= i_base_index it \/ tlen_of f t <= i_index it) ->
  advance fuel f it = (None, it).
Proof.
  intros Hr Ht Hg. rewrite advance_eq, Hr. destruct fuel as [|fuel]; [reflexivity|].
  rewrite Ht. cbv zeta.
  destruct (Nat.leb_spec (i_base_limit it) (i_base_index it)) as [_|H1]; [reflexivity|].
  destruct (Nat.leb_spec (tlen_of f t) (i_index it)) as [_|H2]; [reflexivity|]. lia.
Qed.

Section Live.
  Variable D : nat.
  Variable f : forest.
  Hypothesis Hwf : wf_forest f = true.
  Hypothesis HD : length f <= D.
  Let n0 := tlen_of f 0.

  (* the state after_bin computes is valid and its remaining output is [up] *)
  Lemma after_valid : forall st t idx b, valid_stack f t idx st b -> (st <> [] -> b < n0) ->
    vstate f (after_bin (mkI (Some t) st [] idx b n0 n0) idx (tlen_of f t)) /\
    fut D f (after_bin (mkI (Some t) st [] idx b n0 n0) idx (tlen_of f t)) = up D f st idx b.
  Proof.
    induction st as [|s st' IH]; intros t idx b Hv Hsb.
    - destruct Hv as [-> ->]. fold n0. fold (base_it n0 b). rewrite after_bin_base. split.
      + exists 0. simpl. repeat split; try reflexivity. intros Hne. congruence.
      + unfold fut, base_it. cbn [i_rest i_tab i_index i_stack i_base_index up app]. fold n0.
        destruct (Nat.lt_ge_cases (S b) n0) as [Hlt|Hge].
        * replace (n0 - S b) with (S (n0 - S (S b))) by lia. reflexivity.
        * rewrite reach_out by (fold n0; lia).
          replace (n0 - S b) with 0 by lia. replace (n0 - S (S b)) with 0 by lia. reflexivity.
    - destruct s as [j n i]. simpl in Hv. destruct Hv as (-> & Hn & Hi & Hidx & Hm & Hv).
      assert (Hlt : S j < length f) by (apply (wf_moved f j i Hwf); [lia | exact Hm]).
      destruct (wf_double f j Hwf Hlt) as [Hdbl _].
      destruct Hidx as [-> | ->].
      + rewrite (after_low j n _ i st' b n0 n0 Hi) by lia. split.
        * exists (S j). simpl.
          repeat split; try assumption; try reflexivity; try (right; reflexivity);
            try (apply Hsb; discriminate); try (intros _; apply Hsb; discriminate).
        * unfold fut. cbn [i_rest i_tab i_index i_stack i_base_index up app f_idx f_tab f_len].
          rewrite Nat.eqb_refl.
          destruct (Nat.eqb_spec (i + n) i) as [E|_]; [lia|]. reflexivity.
      + rewrite (after_high j n _ i st' b n0 n0) by lia. rewrite Hn.
        destruct (IH j i b Hv) as [Hv2 Hf2]; [intros _; apply Hsb; discriminate|]. split; [exact Hv2|].
        rewrite Hf2. cbn [up f_idx f_tab f_len].
        destruct (Nat.eqb_spec (i + tlen_of f j) i) as [E|_]; [lia|]. reflexivity.
  Qed.

  Lemma fut_set_rest it r : i_rest it = [] -> fut D f (set_rest it r) = r ++ fut D f it.
  Proof. intros H. unfold fut. simpl. rewrite H. reflexivity. Qed.

  (* one yielding call of next(): the invariant is kept and the yielded node is the head of the
     remaining output *)
  Lemma step_valid : forall fuel it x it', vstate f it -> advance fuel f it = (Some x, it') ->
    vstate f it' /\ fut D f it = x :: fut D f it'.
  Proof.
    induction fuel as [|fuel IH]; intros it x it' Hv H.
    - rewrite advance_eq in H. destruct (i_rest it) as [|x0 r] eqn:Er; [discriminate|].
      injection H as <- <-. split; [exact Hv|]. unfold fut. simpl. rewrite Er. reflexivity.
    - destruct (i_rest it) as [|x0 r] eqn:Er.
      2:{ rewrite (advance_rest _ _ _ _ _ Er) in H. injection H as <- <-. split; [exact Hv|].
          unfold fut. simpl. rewrite Er. reflexivity. }
      destruct Hv as (t & Ht & Hvs & Hlim & Hbs & Hsb).
      destruct it as [tab st rest idx b lim bs].
      cbn [i_tab i_rest i_index i_stack i_base_index i_base_limit i_base_size] in Er, Ht, Hvs, Hlim, Hbs, Hsb.
      subst tab rest lim bs. fold n0 in H |- *.
      destruct (Nat.lt_ge_cases idx (tlen_of f t)) as [Hi|Hi].
      2:{ rewrite (adv_guard _ f _ t) in H; [discriminate|reflexivity|reflexivity|right; exact Hi]. }
      destruct (Nat.lt_ge_cases b n0) as [Hb|Hb].
      2:{ rewrite (adv_guard _ f _ t) in H; [discriminate|reflexivity|reflexivity|left; exact Hb]. }
      destruct (bin_eq_dec_moved (nth idx (table_of f t) BNull)) as [Hm|Hm].
      + rewrite (adv_moved f fuel t st idx b n0 n0 Hi Hb Hm) in H.
        apply IH in H.
        * destruct H as [Hv' Hf]. split; [exact Hv'|]. rewrite <- Hf.
          unfold fut. cbn [i_rest i_tab i_index i_stack i_base_index up app f_idx f_tab f_len].
          rewrite Nat.eqb_refl. rewrite (reach_moved_D D f t idx HD Hm). rewrite <- app_assoc. reflexivity.
        * exists (S t). cbn [i_rest i_tab i_index i_stack i_base_index i_base_limit i_base_size valid_stack f_idx f_tab f_len].
          repeat split; try reflexivity; try assumption; [left; reflexivity | intros _; exact Hb].
      + rewrite (adv_plain f fuel t st idx b n0 n0 Hi Hb Hm) in H.
        destruct (after_valid st t idx b Hvs (fun _ => Hb)) as [Hva Hfa].
        set (a := after_bin (mkI (Some t) st [] idx b n0 n0) idx (tlen_of f t)) in *.
        assert (Hra : i_rest a = []) by (unfold a; rewrite after_bin_rest; reflexivity).
        assert (Hfut : fut D f (mkI (Some t) st [] idx b n0 n0) =
                       bin_list (nth idx (table_of f t) BNull) ++ up D f st idx b).
        { unfold fut. cbn [i_rest i_tab i_index i_stack i_base_index app].
          rewrite (reach_plain_D D f t idx Hi HD Hm). reflexivity. }
        destruct (bin_list (nth idx (table_of f t) BNull)) as [|x1 r1] eqn:Ebl.
        * apply IH in H; [|exact Hva]. destruct H as [Hv' Hf]. split; [exact Hv'|].
          rewrite Hfut. cbn [app]. rewrite <- Hfa. exact Hf.
        * injection H as <- <-. split; [exact Hva|].
          rewrite Hfut, (fut_set_rest a r1 Hra), Hfa. reflexivity.
  Qed.
  (* a call of next() that answers None: the invariant is kept and nothing of the remaining
     output is lost (the answer may be due to exhaustion or to starved fuel) *)
  Lemma none_valid : forall fuel it it', vstate f it -> advance fuel f it = (None, it') ->
    vstate f it' /\ fut D f it = fut D f it'.
  Proof.
    induction fuel as [|fuel IH]; intros it it' Hv H.
    - rewrite advance_eq in H. destruct (i_rest it) as [|x0 r] eqn:Er; [|discriminate].
      injection H as <-. split; [exact Hv|reflexivity].
    - destruct (i_rest it) as [|x0 r] eqn:Er.
      2:{ rewrite (advance_rest _ _ _ _ _ Er) in H. discriminate. }
      pose proof Hv as Hv0.
      destruct Hv as (t & Ht & Hvs & Hlim & Hbs & Hsb).
      destruct it as [tab st rest idx b lim bs].
      cbn [i_tab i_rest i_index i_stack i_base_index i_base_limit i_base_size] in Er, Ht, Hvs, Hlim, Hbs, Hsb.
      subst tab rest lim bs. fold n0 in H, Hv0 |- *.
      destruct (Nat.lt_ge_cases idx (tlen_of f t)) as [Hi|Hi].
      2:{ rewrite (adv_guard _ f _ t) in H; [|reflexivity|reflexivity|right; exact Hi].
          injection H as <-. split; [exact Hv0|reflexivity]. }
      destruct (Nat.lt_ge_cases b n0) as [Hb|Hb].
      2:{ rewrite (adv_guard _ f _ t) in H; [|reflexivity|reflexivity|left; exact Hb].
          injection H as <-. split; [exact Hv0|reflexivity]. }
      destruct (bin_eq_dec_moved (nth idx (table_of f t) BNull)) as [Hm|Hm].
      + rewrite (adv_moved f fuel t st idx b n0 n0 Hi Hb Hm) in H.
        apply IH in H.
        * destruct H as [Hv' Hf]. split; [exact Hv'|]. rewrite <- Hf.
          unfold fut. cbn [i_rest i_tab i_index i_stack i_base_index up app f_idx f_tab f_len].
          rewrite Nat.eqb_refl. rewrite (reach_moved_D D f t idx HD Hm). rewrite <- app_assoc. reflexivity.
        * exists (S t). cbn [i_rest i_tab i_index i_stack i_base_index i_base_limit i_base_size valid_stack f_idx f_tab f_len].
          repeat split; try reflexivity; try assumption; [left; reflexivity | intros _; exact Hb].
      + rewrite (adv_plain f fuel t st idx b n0 n0 Hi Hb Hm) in H.
        destruct (after_valid st t idx b Hvs (fun _ => Hb)) as [Hva Hfa].
        set (a := after_bin (mkI (Some t) st [] idx b n0 n0) idx (tlen_of f t)) in *.
        assert (Hfut : fut D f (mkI (Some t) st [] idx b n0 n0) =
                       bin_list (nth idx (table_of f t) BNull) ++ up D f st idx b).
        { unfold fut. cbn [i_rest i_tab i_index i_stack i_base_index app].
          rewrite (reach_plain_D D f t idx Hi HD Hm). reflexivity. }
        destruct (bin_list (nth idx (table_of f t) BNull)) as [|x1 r1] eqn:Ebl; [|discriminate].
        apply IH in H; [|exact Hva]. destruct H as [Hv' Hf]. split; [exact Hv'|].
        rewrite Hfut. cbn [app]. rewrite <- Hfa. exact Hf.
  Qed.

  (* an exhausted iterator has nothing left to yield *)
  Lemma exhausted_fut it : vstate f it -> exhausted it -> fut D f it = [].
  Proof.
    intros (t & Ht & Hvs & Hlim & Hbs & Hsb) [Hr Hex]. unfold fut. rewrite Hr, Ht. cbn [app].
    revert Hvs Hsb. destruct (i_stack it) as [|s st']; intros Hvs Hsb.
    - simpl in Hvs. destruct Hvs as [-> Hidx]. rewrite reach_out by (rewrite Hidx; lia).
      cbn [up app]. replace (tlen_of f 0 - S (i_base_index it)) with 0 by lia. reflexivity.
    - exfalso. assert (i_base_index it < tlen_of f 0) by (apply Hsb; discriminate). lia.
  Qed.
End Live.


(* ---------- a migration step under a live iterator ---------- *)
Section Mig.
  Variable D : nat.
  Variable hi : node -> bool.
  Variable f : forest.
  Variables j i : nat.
  Hypothesis Hwf : wf_forest f = true.
  Hypothesis HD : length f <= D.
  Hypothesis Hc : can_migrate f j i = true.
  Let f' := migrate hi f j i.
  Let n := tlen_of f j.

  Lemma moved_stays k x : nth x (table_of f k) BNull = BMoved -> nth x (table_of f' k) BNull = BMoved.
  Proof.
    intros Hm. destruct (can_migrate_spec _ _ _ Hc) as (Hlen & Hi & Hnm & Hlo & Hhi).
    destruct (Nat.eq_dec k j) as [->|Hkj].
    - unfold f'. rewrite migrate_table_j by exact Hlen.
      destruct (Nat.eq_dec x i) as [->|Hx].
      + apply nth_set_nth_eq. exact Hi.
      + rewrite nth_set_nth_neq by exact Hx. exact Hm.
    - destruct (Nat.eq_dec k (S j)) as [->|HkS].
      + unfold f'. rewrite migrate_table_Sj by exact Hlen.
        rewrite !nth_set_nth_neq; [exact Hm | | ];
          intros ->; rewrite ?Hlo, ?Hhi in Hm; discriminate.
      + unfold f'. rewrite migrate_table_other by assumption. exact Hm.
  Qed.

  Lemma reach_perm_gen j0 x : ~ (j0 = S j /\ (x = i \/ x = i + n)) ->
    Permutation (reach_bin D f' j0 x) (reach_bin D f j0 x).
  Proof.
    intros Hex. destruct (can_migrate_spec _ _ _ Hc) as (Hlen & _).
    destruct (le_lt_dec j0 j) as [Hle|Hgt].
    - apply (reach_below hi f j i Hwf Hc (j - j0)); lia.
    - destruct (Nat.eq_dec j0 (S j)) as [->|Hne].
      + unfold f'. rewrite (reach_Sj_other hi f j i Hc) by (fold n; lia). apply Permutation_refl.
      + unfold f'. rewrite reach_above by lia. apply Permutation_refl.
  Qed.

  Lemma frame_not_target s x : f_len s = tlen_of f (f_tab s) -> f_idx s < f_len s ->
    nth (f_idx s) (table_of f (f_tab s)) BNull = BMoved ->
    (x = f_idx s \/ x = f_idx s + f_len s) ->
    ~ (S (f_tab s) = S j /\ (x = i \/ x = i + n)).
  Proof.
    intros Hn Hlt Hm Hx [E Hx']. injection E as E.
    destruct (can_migrate_spec _ _ _ Hc) as (_ & Hi & Hnm & _).
    rewrite E in *. assert (Heq : f_idx s = i) by (unfold n in *; lia).
    rewrite Heq in Hm. contradiction.
  Qed.

  Lemma valid_stack_mig : forall st t idx b, valid_stack f t idx st b -> valid_stack f' t idx st b.
  Proof.
    induction st as [|s st' IH]; intros t idx b Hv; [exact Hv|].
    simpl in Hv |- *. destruct Hv as (Ht & Hn & Hi & Hidx & Hm & Hv).
    unfold f'. rewrite migrate_tlen. repeat split; try assumption.
    - apply moved_stays. exact Hm.
    - apply IH. exact Hv.
  Qed.

  Lemma up_perm : forall st t idx b, valid_stack f t idx st b ->
    Permutation (up D f' st idx b) (up D f st idx b).
  Proof.
    induction st as [|s st' IH]; intros t idx b Hv.
    - simpl. unfold f' at 2. rewrite migrate_tlen.
      apply flat_map_perm_pointwise. intros x _. apply reach_perm_gen. intros [E _]. discriminate.
    - simpl in Hv. destruct Hv as (Ht & Hn & Hi & Hidx & Hm & Hv).
      cbn [up]. apply Permutation_app; [|apply (IH _ _ _ Hv)].
      destruct (Nat.eqb idx (f_idx s)); [|apply Permutation_refl].
      apply reach_perm_gen. apply (frame_not_target s); try assumption. right. reflexivity.
  Qed.

  Lemma vstate_mig it : vstate f it -> vstate f' it.
  Proof.
    intros (t & Ht & Hvs & Hl & Hb & Hsb). exists t. unfold f'. rewrite migrate_tlen.
    repeat split; try assumption. apply valid_stack_mig. exact Hvs.
  Qed.

  Lemma fut_perm it : vstate f it -> Permutation (fut D f' it) (fut D f it).
  Proof.
    intros (t & Ht & Hvs & Hl & Hb). unfold fut. rewrite Ht. apply Permutation_app_head.
    apply Permutation_app; [|apply (up_perm _ _ _ _ Hvs)].
    apply reach_perm_gen.
    destruct (i_stack it) as [|s st'].
    - destruct Hvs as [-> _]. intros [E _]. discriminate.
    - simpl in Hvs. destruct Hvs as (-> & Hn & Hi & Hidx & Hm & _).
      apply (frame_not_target s); assumption.
  Qed.
End Mig.

(* ---------- the interleaved run ---------- *)
Lemma vstate_new_iter f : f <> [] -> vstate f (new_iter f).
Proof.
  intros Hne. destruct f as [|t rest]; [congruence|].
  exists 0. simpl. repeat split; try reflexivity. intros Hne'. congruence.
Qed.

Lemma fut_new_iter f : f <> [] -> fut (S (length f)) f (new_iter f) = contents f.
Proof.
  intros Hne. destruct f as [|t rest]; [congruence|].
  unfold fut, contents. cbn [new_iter i_rest i_tab i_index i_stack i_base_index up app].
  set (g := t :: rest). set (n0 := tlen_of g 0).
  destruct n0 as [|m] eqn:E.
  - rewrite reach_out by (fold n0; lia). reflexivity.
  - cbn [seq flat_map]. replace (S m - 1) with m by lia. reflexivity.
Qed.

Lemma migrate_guarded_cases hi f ji :
  migrate_guarded hi f ji = f \/
  (can_migrate f (fst ji) (snd ji) = true /\ migrate_guarded hi f ji = migrate hi f (fst ji) (snd ji)).
Proof. unfold migrate_guarded. destruct (can_migrate f (fst ji) (snd ji)); [right; split; reflexivity | left; reflexivity]. Qed.

(* master invariant: what has been yielded plus what the closed form says is still to come is,
   at every moment, a permutation of what was to come at the start *)
Lemma drain_dyn_master hi D F : forall sched f it,
  wf_forest f = true -> length f <= D -> vstate f it ->
  exists rem, Permutation (drain_dyn hi sched F f it ++ rem) (fut D f it).
Proof.
  induction sched as [|[ji|] s IH]; intros f it Hwf HD Hv.
  - exists (fut D f it). apply Permutation_refl.
  - cbn [drain_dyn]. destruct (migrate_guarded_cases hi f ji) as [E|[Hc E]]; rewrite E.
    + apply IH; assumption.
    + destruct (IH (migrate hi f (fst ji) (snd ji)) it) as [rem Hrem].
      * apply migrate_wf; assumption.
      * rewrite migrate_length. exact HD.
      * apply vstate_mig; assumption.
      * exists rem. eapply Permutation_trans; [exact Hrem|]. apply fut_perm; assumption.
  - cbn [drain_dyn]. destruct (advance F f it) as [[x|] it'] eqn:Ea.
    + destruct (step_valid D f Hwf HD F it x it' Hv Ea) as [Hv' Hf].
      destruct (IH f it' Hwf HD Hv') as [rem Hrem]. exists rem.
      rewrite Hf. cbn [app]. apply perm_skip. exact Hrem.
    + exists (fut D f it). apply Permutation_refl.
Qed.

Lemma drain_dyn_nil hi F : forall sched it, i_tab it = None -> i_rest it = [] ->
  drain_dyn hi sched F [] it = [].
Proof.
  induction sched as [|[ji|] s IH]; intros it Ht Hr; [reflexivity| |].
  - cbn [drain_dyn]. unfold migrate_guarded, can_migrate. simpl. apply IH; assumption.
  - cbn [drain_dyn]. rewrite advance_eq, Hr, Ht. destruct F; reflexivity.
Qed.

(* the entries yielded by a live iterator under an arbitrary interleaving with migration steps
   (any bins, any tables, any moment, any per-call fuel) are, as a multiset, part of the contents
   the forest had when the iterator was created *)
Theorem drain_dyn_sub_contents : forall hi sched F f, wf_forest f = true ->
  exists rem, Permutation (drain_dyn hi sched F f (new_iter f) ++ rem) (contents f).
Proof.
  intros hi sched F f Hwf. destruct f as [|t rest] eqn:Ef.
  - exists []. rewrite drain_dyn_nil by reflexivity. apply Permutation_refl.
  - rewrite <- Ef in *. assert (Hne : f <> []) by (rewrite Ef; discriminate).
    destruct (drain_dyn_master hi (S (length f)) F sched f (new_iter f) Hwf ltac:(lia)
                (vstate_new_iter f Hne)) as [rem Hrem].
    exists rem. rewrite <- (fut_new_iter f Hne). exact Hrem.
Qed.

Lemma NoDup_app_l (A : Type) (l l' : list A) : NoDup (l ++ l') -> NoDup l.
Proof.
  induction l as [|a l IH]; simpl; intros H; [constructor|].
  inversion H as [|? ? Hn Hd]; subst.
  constructor; [intros Hin; apply Hn; apply in_or_app; left; exact Hin | apply IH; exact Hd].
Qed.

(* (a) no key is yielded twice *)
Theorem drain_dyn_no_duplicates : forall hi sched F f, wf_forest f = true ->
  NoDup (map nk (contents f)) -> NoDup (map nk (drain_dyn hi sched F f (new_iter f))).
Proof.
  intros hi sched F f Hwf Hnd.
  destruct (drain_dyn_sub_contents hi sched F f Hwf) as [rem Hrem].
  apply (Permutation_map nk) in Hrem. rewrite map_app in Hrem.
  apply Permutation_sym in Hrem. apply (Permutation_NoDup Hrem) in Hnd.
  apply NoDup_app_l in Hnd. exact Hnd.
Qed.

(* (b) every yielded node is an entry of the forest the iterator was created on *)
Theorem drain_dyn_yields_contents : forall hi sched F f x, wf_forest f = true ->
  In x (drain_dyn hi sched F f (new_iter f)) -> In x (contents f).
Proof.
  intros hi sched F f x Hwf Hx.
  destruct (drain_dyn_sub_contents hi sched F f Hwf) as [rem Hrem].
  apply (Permutation_in _ Hrem). apply in_or_app. left. exact Hx.
Qed.

Print Assumptions drain_dyn_no_duplicates.
Print Assumptions drain_dyn_yields_contents.

(* ---------- (c): completeness, on the run that also returns its final state ---------- *)
Lemma drain_dyn_end_fst hi F : forall sched f it,
  fst (drain_dyn_end hi sched F f it) = drain_dyn hi sched F f it.
Proof.
  induction sched as [|[ji|] s IH]; intros f it; cbn [drain_dyn drain_dyn_end]; [reflexivity|apply IH|].
  destruct (advance F f it) as [[x|] it']; [|reflexivity]. cbn [fst]. rewrite IH. reflexivity.
Qed.

Lemma drain_dyn_end_master hi D F : forall sched f it,
  wf_forest f = true -> length f <= D -> vstate f it ->
  vstate (fst (snd (drain_dyn_end hi sched F f it))) (snd (snd (drain_dyn_end hi sched F f it))) /\
  Permutation (fst (drain_dyn_end hi sched F f it) ++
               fut D (fst (snd (drain_dyn_end hi sched F f it))) (snd (snd (drain_dyn_end hi sched F f it))))
              (fut D f it).
Proof.
  induction sched as [|[ji|] s IH]; intros f it Hwf HD Hv.
  - cbn. split; [exact Hv|apply Permutation_refl].
  - cbn [drain_dyn_end]. destruct (migrate_guarded_cases hi f ji) as [E|[Hc E]]; rewrite E.
    + apply IH; assumption.
    + destruct (IH (migrate hi f (fst ji) (snd ji)) it) as [Hve Hrem].
      * apply migrate_wf; assumption.
      * rewrite migrate_length. exact HD.
      * apply vstate_mig; assumption.
      * split; [exact Hve|]. eapply Permutation_trans; [exact Hrem|]. apply fut_perm; assumption.
  - cbn [drain_dyn_end]. destruct (advance F f it) as [[x|] it'] eqn:Ea.
    + destruct (step_valid D f Hwf HD F it x it' Hv Ea) as [Hv' Hf].
      destruct (IH f it' Hwf HD Hv') as [Hve Hrem]. cbn [fst snd].
      split; [exact Hve|]. rewrite Hf. cbn [app]. apply perm_skip. exact Hrem.
    + destruct (none_valid D f Hwf HD F it it' Hv Ea) as [Hv' Hf]. cbn [fst snd app].
      split; [exact Hv'|]. rewrite Hf. apply Permutation_refl.
Qed.

(* (c) if the interleaved run ends with the iterator exhausted, it has yielded exactly the
   entries the forest had when the iterator was created (as a multiset): migration steps taken
   while the iterator is live never make it miss an entry *)
Theorem drain_dyn_complete : forall hi sched F f, wf_forest f = true ->
  exhausted (snd (snd (drain_dyn_end hi sched F f (new_iter f)))) ->
  Permutation (drain_dyn hi sched F f (new_iter f)) (contents f).
Proof.
  intros hi sched F f Hwf Hex. destruct f as [|t rest] eqn:Ef.
  - rewrite drain_dyn_nil by reflexivity. apply Permutation_refl.
  - rewrite <- Ef in *. assert (Hne : f <> []) by (rewrite Ef; discriminate).
    destruct (drain_dyn_end_master hi (S (length f)) F sched f (new_iter f) Hwf ltac:(lia)
                (vstate_new_iter f Hne)) as [Hve Hrem].
    assert (HD' : length (fst (snd (drain_dyn_end hi sched F f (new_iter f)))) <= S (length f)).
    { clear. generalize (new_iter f). generalize (Nat.le_succ_diag_r (length f)).
      generalize (S (length f)) as D. revert f.
      induction sched as [|[ji|] s IH]; intros f D HD it; cbn [drain_dyn_end].
      - exact HD.
      - apply IH. rewrite migrate_guarded_length. exact HD.
      - destruct (advance F f it) as [[x|] it']; cbn [fst snd]; [apply IH; exact HD | exact HD]. }
    rewrite (exhausted_fut _ _ HD' _ Hve Hex), app_nil_r, drain_dyn_end_fst, (fut_new_iter f Hne) in Hrem.
    exact Hrem.
Qed.

Corollary drain_dyn_all : forall hi sched F f x, wf_forest f = true ->
  exhausted (snd (snd (drain_dyn_end hi sched F f (new_iter f)))) ->
  In x (contents f) -> In x (drain_dyn hi sched F f (new_iter f)).
Proof.
  intros hi sched F f x Hwf Hex Hx.
  apply (Permutation_in _ (Permutation_sym (drain_dyn_complete hi sched F f Hwf Hex))). exact Hx.
Qed.

Print Assumptions drain_dyn_complete.

(* ====================================================================== *)
(* Non-vacuity and exhaustive small-scope tests of the model (vm_compute)  *)
(* ====================================================================== *)
Definition hi_bit1 (x : node) : bool := N.testbit (nk x) 1.
Definition hi_bit2 (x : node) : bool := N.testbit (nk x) 2.

(* a table of 2 bins being migrated to 4 (and then to 8) while an iterator is live *)
Definition dyn_fA : forest := [ [bl [0;2]; bl [1;3]]; repeat BNull 4; repeat BNull 8 ].
Definition dyn_sA : list (option (nat * nat)) :=
  [None; Some (0,1); None; Some (0,0); Some (1,1); None; Some (1,3); None; None].

Example dyn_fA_run :
  keys (drain_dyn hi_bit1 dyn_sA (trav_fuel dyn_fA) dyn_fA (new_iter dyn_fA)) = [0;2;1;3] /\
  exhausted (snd (snd (drain_dyn_end hi_bit1 dyn_sA (trav_fuel dyn_fA) dyn_fA (new_iter dyn_fA)))) /\
  wf_forest dyn_fA = true /\ NoDup (map nk (contents dyn_fA)).
Proof.
  split; [vm_compute; reflexivity|]. split; [vm_compute; split; [reflexivity|repeat constructor]|].
  split; [vm_compute; reflexivity|]. vm_compute.
  repeat (constructor; [simpl; intuition discriminate|]). constructor.
Qed.

(* all schedules of a given length over an alphabet of steps, each followed by 12 calls of
   next(): (a) no key twice, (b) only entries of the initial contents, (c) all of them, with the
   per-call fuel trav_fuel of the initial forest.  No counterexample exists in these scopes
   (the same check was also run, outside this file, on 823543 + 390625 + 390625 schedules of
   length 7 and 8 over three forests, without finding any). *)
Fixpoint all_scheds (alpha : list (option (nat*nat))) (L : nat) : list (list (option (nat*nat))) :=
  match L with
  | O => [[]]
  | S L' => flat_map (fun s => map (fun a => a :: s) alpha) (all_scheds alpha L')
  end.

Fixpoint nodupb (l : list nat) : bool :=
  match l with [] => true | a :: r => negb (existsb (Nat.eqb a) r) && nodupb r end.

Definition ok_run (hi : node -> bool) (f : forest) (s : list (option (nat*nat))) : bool :=
  let out := keys (drain_dyn hi (s ++ repeat None 12) (trav_fuel f) f (new_iter f)) in
  let c := keys (contents f) in
  nodupb out && forallb (fun k => existsb (Nat.eqb k) c) out && forallb (fun k => existsb (Nat.eqb k) out) c.

Definition bad_runs (hi : node -> bool) f alpha L :=
  filter (fun s => negb (ok_run hi f s)) (all_scheds alpha L).

Definition dyn_alphaA := [None; Some (0,0); Some (0,1); Some (1,0); Some (1,1); Some (1,2); Some (1,3)].
Definition dyn_fB : forest :=
  [ [BMoved; bl [10]];
    [bl [4]; BNull; BMoved; BNull];
    [BNull; BNull; bl [2;18]; BNull; BNull; BNull; bl [6]; BNull] ].
Definition dyn_alphaB := [None; Some (0,1); Some (1,0); Some (1,1); Some (1,3)].
Definition dyn_fC : forest :=
  [ [BMoved; BMoved]; [bl [4]; bl [1;5]; bl [2]; bl [3;7]]; repeat BNull 8 ].
Definition dyn_alphaC := [None; Some (1,0); Some (1,1); Some (1,2); Some (1,3)].

Example dyn_tested_A : length (all_scheds dyn_alphaA 4) = 2401 /\ bad_runs hi_bit1 dyn_fA dyn_alphaA 4 = [].
Proof. split; vm_compute; reflexivity. Qed.
Example dyn_tested_B : length (all_scheds dyn_alphaB 5) = 3125 /\ bad_runs hi_bit2 dyn_fB dyn_alphaB 5 = [].
Proof. split; vm_compute; reflexivity. Qed.
Example dyn_tested_C : length (all_scheds dyn_alphaC 5) = 3125 /\ bad_runs hi_bit2 dyn_fC dyn_alphaC 5 = [].
Proof. split; vm_compute; reflexivity. Qed.
