(* Step-by-step conformance of Model/BinProto.v with the implementation.
   The instrumented crate runs a program under the deterministic scheduler and records, for every
   scheduler step, which thread ran and at which source site (the site table is regenerated from
   the code: Gen/gen.json "atomics": file, line, field, method).  The harness maps a site to an
   access class (which field of which object, which kind of access) and prints the sequence.
   `conform` replays that sequence on the model:
     - an access to a cell the model does not contain (table pointer, counters, size_ctl, ...) is a
       stutter;
     - any other access must be exactly the access the model's thread performs next (by class),
       and then the model takes that step; the thread-local steps that follow it in the code
       before the next shared access (unlock, return, invocation of the next call) are taken
       immediately, as the scheduler runs a thread from one shared access to the next;
     - at the end every call must have returned what the implementation returned, and the
       bins must hold the same chains (keys and values, in order).
   Definitions only. *)
From Flurry Require Export Model.BinProto.
Open Scope Z_scope.

(* key -> hash as reported by the map itself; the callbacks the harness uses, by index
   (the same tables as Model/Check.v) *)
Definition hash_of (tbl : list (N * N)) (k : N) : N :=
  match find (fun p => (fst p =? k)%N) tbl with Some p => snd p | None => 0%N end.
Definition remap_tbl (f k : N) (v : Z) : option Z :=
  match f with
  | 0%N => None
  | 1%N => Some (v + 1)
  | 2%N => Some (Z.of_N k * 1000 + v)
  | _ => if Z.even v then None else Some (2 * v + 1)
  end.

(* the remapping functions of the concurrent programs (harness cremap): a computed value moves its
   argument into a higher band, so that no two writes of a run produce the same value for a key *)
Definition cremap_tbl (f k : N) (v : Z) : option Z :=
  match f with
  | 0%N => None
  | 1%N => Some (v + 1000000)
  | 2%N => Some (v + 2000000)
  | _ => if Z.even v then None else Some (v + 3000000)
  end.

Inductive acc :=
| ABinLoad | ABinCas | ABinStore
| AValLoad | AValWrite
| ANextLoad | ANextStore
| ALock
| AStart     (* the thread's first turn: it runs up to its first shared access *)
| AOther.    (* a cell outside the model *)

Definition acc_eqb (a b : acc) : bool :=
  match a, b with
  | ABinLoad, ABinLoad | ABinCas, ABinCas | ABinStore, ABinStore | AValLoad, AValLoad
  | AValWrite, AValWrite | ANextLoad, ANextLoad | ANextStore, ANextStore | ALock, ALock
  | AStart, AStart | AOther, AOther => true
  | _, _ => false
  end.

Section Conf.
Variable khash : N -> N.
Variable nbins : nat.

(* the model thread's next step is local (no shared access) *)
Definition is_local (c : cfg) (t : nat) : bool :=
  let th := get_thr c t in
  match at_ th with
  | PutUnlock _ _ _ => true
  | PDone => match todo th with [] => false | _ => true end
  | _ => false
  end.

Definition settle1 (c : cfg) (t : nat) : cfg := if is_local c t then step khash nbins c t else c.
(* PutUnlock -> PDone -> PStart at most *)
Definition settle (c : cfg) (t : nat) : cfg := settle1 (settle1 (settle1 c t) t) t.

(* Two places where the code makes two accesses and the model one step (the lock is held and only
   lock holders write these fields, so the first access cannot be invalidated before the second):
   the append at the end of a chain (load the null `next`, then store the new node into it) and
   the replacement of a value (load the current value, which is what the call returns, then swap
   the new one in).  The model's step corresponds to the second access; `prelude` is the first. *)
Definition prelude (c : cfg) (t : nat) : option acc :=
  match at_ (get_thr c t) with
  | PutWalk k _ no_repl _ p =>
      if (ckey (cell_at (sh c) p) =? k)%N then (if no_repl then None else Some AValLoad)
      else match cnext (cell_at (sh c) p) with None => Some ANextLoad | Some _ => None end
  | _ => None
  end.

(* the access the model's thread t performs next *)
Definition expected (c : cfg) (t : nat) : acc :=
  let s := sh c in
  match at_ (get_thr c t) with
  | PStart _ => ABinLoad
  | GWalk k p => if (ckey (cell_at s p) =? k)%N then AValLoad else ANextLoad
  | PutCas _ _ _ => ABinCas
  | PutFast _ _ _ => AValLoad
  | PutLock _ _ _ _ | RmLock _ _ _ | CpLock _ _ _ => ALock
  | PutReval _ _ _ _ | RmReval _ _ _ | CpReval _ _ _ => ABinLoad
  | PutWalk k _ no_repl _ p =>
      if (ckey (cell_at s p) =? k)%N then (if no_repl then AValLoad else AValWrite)
      else match cnext (cell_at s p) with None => ANextStore | Some _ => ANextLoad end
  | RmWalk _ _ _ _ _ => ANextLoad
  | RmFound _ _ _ _ _ _ => AValLoad
  | RmUnlink _ _ pred _ _ _ => match pred with Some _ => ANextStore | None => ABinStore end
  | CpWalk _ _ _ _ _ => ANextLoad
  | CpFound _ _ _ _ _ _ => AValLoad
  | CpApply _ _ pred _ _ _ nv =>
      match nv with
      | Some _ => AValWrite
      | None => match pred with Some _ => ANextStore | None => ABinStore end
      end
  | PutUnlock _ _ _ | PDone => AOther
  end.

Inductive verdict :=
| VOk
| VStep (i : N) (t : nat) (got want : acc)      (* the i-th recorded step is not the model's *)
| VBlocked (i : N) (t : nat)                    (* the code acquired a lock the model says is held *)
| VNotDone
| VResult (t : nat) (j : nat)                   (* j-th call of thread t returned something else *)
| VFinal (b : nat).                             (* bin b differs *)

Fixpoint conform_go (i : N) (tr : list (nat * acc)) (c : cfg) (pend : list nat) : cfg * verdict :=
  match tr with
  | [] => (c, VOk)
  | (t, a) :: tr' =>
      match a with
      | AOther => conform_go (i + 1)%N tr' c pend
      | AStart => conform_go (i + 1)%N tr' (settle c t) pend
      | _ =>
          match prelude c t, existsb (Nat.eqb t) pend with
          | Some a0, false =>
              if acc_eqb a a0 then conform_go (i + 1)%N tr' c (t :: pend) else (c, VStep i t a a0)
          | _, _ =>
          if negb (acc_eqb a (expected c t)) then (c, VStep i t a (expected c t))
          else if negb (enabled c t) then (c, VBlocked i t)
          else conform_go (i + 1)%N tr' (settle (step khash nbins c t) t)
                          (filter (fun x => negb (Nat.eqb x t)) pend)
          end
      end
  end.

(* run thread t alone until it has nothing left to do (the prefill) *)
Fixpoint solo (fuel : nat) (c : cfg) (t : nat) : cfg :=
  match fuel with
  | O => c
  | S f =>
      let th := get_thr c t in
      match at_ th, todo th with
      | PDone, [] => c
      | _, _ => solo f (step khash nbins c t) t
      end
  end.

(* ---------- comparison with what the implementation returned / holds ---------- *)
Definition oz_eqb := oeqb.
Definition res_eqb (a b : res) : bool :=
  match a, b with
  | RNone, RNone | RInserted, RInserted => true
  | RVal x, RVal y => x =? y
  | RExists x, RExists y => x =? y
  | RComputed s1 r1, RComputed s2 r2 => oz_eqb s1 s2 && oz_eqb r1 r2
  | _, _ => false
  end.

(* results of thread t, oldest first *)
Definition results_of (c : cfg) (t : nat) : list res :=
  rev (map h_res (filter (fun h => Nat.eqb (h_tid h) t) (hist c))).

(* the implementation reports no result for the removals of a retain: None = not compared *)
Fixpoint first_diff (j : nat) (a : list res) (b : list (option res)) : option nat :=
  match a, b with
  | [], [] => None
  | x :: a', y :: b' =>
      if match y with Some y' => res_eqb x y' | None => true end then first_diff (S j) a' b' else Some j
  | _, _ => Some j
  end.

Fixpoint results_check (t : nat) (c : cfg) (rs : list (list (option res))) : option (nat * nat) :=
  match rs with
  | [] => None
  | r :: rs' =>
      match first_diff 0 (results_of c t) r with
      | Some j => Some (t, j)
      | None => results_check (S t) c rs'
      end
  end.

(* the chain hanging off bin b *)
Fixpoint chain (s : shared) (fuel : nat) (p : option nat) : list (N * Z) :=
  match fuel, p with
  | S f, Some a => (ckey (cell_at s a), cval (cell_at s a)) :: chain s f (cnext (cell_at s a))
  | _, _ => []
  end.
Definition chain_of (c : cfg) (b : nat) : list (N * Z) :=
  chain (sh c) (S (length (heap (sh c)))) (bin_at (sh c) b).

Fixpoint kv_eqb (a b : list (N * Z)) : bool :=
  match a, b with
  | [], [] => true
  | (k1, v1) :: a', (k2, v2) :: b' => (k1 =? k2)%N && (v1 =? v2) && kv_eqb a' b'
  | _, _ => false
  end.

Fixpoint final_check (b : nat) (c : cfg) (bs : list (list (N * Z))) : option nat :=
  match bs with
  | [] => None
  | x :: bs' => if kv_eqb (chain_of c b) x then final_check (S b) c bs' else Some b
  end.

End Conf.

(* one recorded run *)
Record case := mkCase {
  cs_hash : list (N * N);                 (* key -> spread hash, from the map itself *)
  cs_nbins : nat;                          (* table length *)
  cs_prefill : list opn;                   (* inserted before the threads start *)
  cs_progs : list (list opn);
  cs_trace : list (nat * acc);
  cs_results : list (list (option res));   (* per thread, in program order *)
  cs_final : list (list (N * Z))           (* per bin, head first *)
}.

Definition conform (x : case) : verdict :=
  let kh := hash_of (cs_hash x) in
  let nb := cs_nbins x in
  let pre := length (cs_progs x) in
  let c0 := init nb (cs_progs x ++ [cs_prefill x]) in
  let c1 := solo kh nb (64 * S (length (cs_prefill x)) * S (length (cs_prefill x))) c0 pre in
  let '(c2, v) := conform_go kh nb 0%N (cs_trace x) c1 [] in
  match v with
  | VOk =>
      if negb (all_done c2) then VNotDone
      else match results_check 0 c2 (cs_results x) with
           | Some (t, j) => VResult t j
           | None =>
               if negb (Nat.eqb (length (cs_final x)) nb) then VFinal nb
               else match final_check 0 c2 (cs_final x) with
                    | Some b => VFinal b
                    | None => VOk
                    end
           end
  | _ => v
  end.
