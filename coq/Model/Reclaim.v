(* Memory reclamation (C03, C04): an event-trace model of guards, unlinking, retirement and
   reclamation, with the collector's contract and the map's disciplines as explicit premises.
   Definitions only. *)
From Coq Require Import List Arith Bool String.
From Flurry Require Export Gen.GenApi.
Import ListNotations.

Inductive ev :=
| GStart (g : nat)                 (* a guard becomes active *)
| GEnd (g : nat)                   (* it is dropped or refreshed *)
| Access (g : nat) (o : nat)       (* the thread holding guard g reads, writes or locks object o *)
| Unlink (o : nat)                 (* o stops being reachable from the map *)
| Retire (g : nat) (o : nat)       (* o is handed to the collector through guard g *)
| Free (o : nat)                   (* the collector drops and deallocates o *)
| Create (o : nat)
| HandBack (o : nat).              (* ownership of o returns to the caller (refused insert) *)

Definition trace := list ev.       (* index = time *)

Definition at_ (tr : trace) (t : nat) (e : ev) : Prop := nth_error tr t = Some e.

(* guard g is active at time t *)
Definition active (tr : trace) (g t : nat) : Prop :=
  exists s, s <= t /\ at_ tr s (GStart g) /\ forall u, s < u -> u <= t -> ~ at_ tr u (GEnd g).

(* ---- the collector's contract (seize): an object retired through a protected guard is freed
   only after its retirement and after every guard active at that moment has ended ---- *)
Definition collector_ok (tr : trace) : Prop :=
  forall o tf, at_ tr tf (Free o) ->
    exists g tr_, tr_ < tf /\ at_ tr tr_ (Retire g o) /\
                  forall g', active tr g' tr_ -> ~ active tr g' tf.

(* ---- the map's disciplines ---- *)
(* D1: an object is retired only after it was unlinked *)
Definition unlink_before_retire (tr : trace) : Prop :=
  forall g o t, at_ tr t (Retire g o) -> exists u, u < t /\ at_ tr u (Unlink o).
(* D2 (the reader invariant): whoever touches o under guard g started that guard before o was
   unlinked - it reached o through the structure while o was still reachable *)
Definition access_was_reachable (tr : trace) : Prop :=
  forall g o t, at_ tr t (Access g o) ->
    active tr g t /\ forall u, at_ tr u (Unlink o) -> exists s, s < u /\ at_ tr s (GStart g) /\ active tr g t
                                                           /\ (forall w, s < w -> w <= t -> ~ at_ tr w (GEnd g)).

Definition safe (tr : trace) : Prop :=
  forall g o t tf, at_ tr t (Access g o) -> at_ tr tf (Free o) -> t < tf.

(* ---- exactly-once destruction ---- *)
Definition count (f : ev -> bool) (tr : trace) : nat := List.length (filter f tr).
Definition is_free (o : nat) (e : ev) : bool := match e with Free o' => Nat.eqb o o' | _ => false end.
Definition is_retire (o : nat) (e : ev) : bool := match e with Retire _ o' => Nat.eqb o o' | _ => false end.
Definition is_handback (o : nat) (e : ev) : bool := match e with HandBack o' => Nat.eqb o o' | _ => false end.

(* collector: each Free answers a distinct Retire; at teardown everything retired is freed *)
Definition frees_match_retires (tr : trace) : Prop :=
  forall o, count (is_free o) tr <= count (is_retire o) tr.
Definition retire_once (tr : trace) : Prop := forall o, count (is_retire o) tr <= 1.
Definition drained (tr : trace) : Prop := forall o, count (is_retire o) tr <= count (is_free o) tr.

(* ---- which entry points run under an unprotected guard (regenerated API table) ---- *)
Open Scope string_scope.
Definition exclusive_teardown : list string := ["drop"; "drop_bins"; "drop_fields"; "drop_tree_nodes"; "presize"].
Definition unprotected_only_in_teardown : bool :=
  forallb (fun r => if a_own r =? "unprotected"
                    then existsb (String.eqb (a_name r)) exclusive_teardown else true) api.

(* ---- source-order discipline D1 over the regenerated write sequences of every function of
   map.rs that retires memory: a retirement is never the first write of the function, i.e. some
   unlinking store precedes it ---- *)
From Flurry Require Import Gen.GenPanic.
Definition is_retire_write (e : sev) : bool :=
  match e with SWrite w => (w =? "retire_shared") || (w =? "defer_drop_without_values") | _ => false end.
Fixpoint retires_follow_unlinks (seen_unlink : bool) (evs : list sev) : bool :=
  match evs with
  | [] => true
  | e :: r => if is_retire_write e then seen_unlink && retires_follow_unlinks seen_unlink r
              else retires_follow_unlinks true r
  end.
Definition retire_discipline_ok : bool :=
  forallb (fun p => retires_follow_unlinks false (snd p)) retiring_functions
  && Nat.leb 6 (List.length retiring_functions).
