(* The specification a sequential map is compared with: a finite map key -> (instance, value),
   represented as a function; every operation's abstract effect and result. Definitions only. *)
From Flurry Require Export Model.WF.
Open Scope Z_scope.

Definition amap := N -> option (N * Z).
Definition aempty : amap := fun _ => None.
Definition aupd (m : amap) (k : N) (x : N * Z) : amap := fun k' => if (k' =? k)%N then Some x else m k'.
Definition adel (m : amap) (k : N) : amap := fun k' => if (k' =? k)%N then None else m k'.

Section WithHash.
Variable khash : N -> N.
Variable remap : N -> N -> Z -> option Z.
Variable keep : N -> N -> Z -> bool.

(* the abstraction: what a lookup of k finds *)
Definition abs (s : st) : amap :=
  fun k => option_map (fun n => (ni n, nv n)) (get_node khash s k).

(* abstract effect of inserting (k,i,v): the stored key instance is kept *)
Definition ains (m : amap) (k i : N) (v : Z) : amap :=
  match m k with Some (i0, _) => aupd m k (i0, v) | None => aupd m k (i, v) end.

Definition aput_all (m : amap) (items : list (N * N * Z)) : amap :=
  fold_left (fun acc '(k, i, v) => ains acc k i v) items m.

Definition aretain (m : amap) (p : N) : amap :=
  fun k => match m k with
           | Some (i, v) => if keep p k v then Some (i, v) else None
           | None => None
           end.

(* abstract next state *)
Definition spec_state (m : amap) (o : op) : amap :=
  match o with
  | Insert k i v => ains m k i v
  | TryInsert k i v => match m k with Some _ => m | None => aupd m k (i, v) end
  | Remove k | RemoveEntry k => adel m k
  | Compute k f => match m k with
                   | Some (i, v) => match remap f k v with Some v' => aupd m k (i, v') | None => adel m k end
                   | None => m
                   end
  | Retain p | RetainForce p => aretain m p
  | Clear => aempty
  | Extend _ items => aput_all m items
  | _ => m
  end.

(* abstract result; `n` is the number of entries and `l` a listing of them (for Len/Iter) *)
Definition spec_out (m : amap) (o : op) (n : Z) (l : list (N * N * Z)) : outcome :=
  match o with
  | Insert k _ _ => match m k with Some (_, v0) => OVal v0 | None => ONone end
  | TryInsert k _ v => match m k with Some (_, v0) => OExists v0 v | None => OInserted v end
  | Get k => match m k with Some (_, v) => OVal v | None => ONone end
  | GetKeyValue k => match m k with Some (i, v) => OKV k i v | None => ONone end
  | ContainsKey k => OBool (match m k with Some _ => true | None => false end)
  | Remove k => match m k with Some (_, v) => OVal v | None => ONone end
  | RemoveEntry k => match m k with Some (i, v) => OKV k i v | None => ONone end
  | Compute k f => match m k with
                   | Some (_, v) => match remap f k v with Some v' => OVal v' | None => ONone end
                   | None => ONone
                   end
  | Len => ONum n
  | IsEmpty => OBool (n =? 0)
  | Iter => OList l
  | _ => ONone
  end.

(* a listing of an abstract map: every entry exactly once *)
Definition lists (l : list (N * N * Z)) (m : amap) : Prop :=
  NoDup (map (fun e => fst (fst e)) l) /\
  forall k i v, In (k, i, v) l <-> m k = Some (i, v).

End WithHash.
