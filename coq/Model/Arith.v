(* Arithmetic of the capacity / resize logic.  Every definition here is a thin name over an
   expression regenerated from the Rust source (Gen/GenArith.v); nothing is transcribed by hand. *)
From Flurry Require Export Base.Prelude Gen.GenArith.
Open Scope Z_scope.

(* the shifted resize stamp, as add_count computes it *)
Definition rs (n : Z) : Z := rs_add_count n.

(* table length chosen for a requested capacity (with_capacity / presize) *)
Definition table_size_for (c : Z) : Z := capacity_round_presize c.

(* the 31 legal table lengths 2^0 .. 2^30 *)
Definition table_lengths : list Z := map (fun j => 2 ^ Z.of_nat j) (seq 0 31).

(* threshold installed after a resize from n to 2n *)
Definition next_threshold (n : Z) : Z := transfer_next_sc n.

(* stride used by transfer on a machine with ncpu CPUs *)
Definition stride (n ncpu : Z) : Z := transfer_stride (transfer_stride0 n ncpu).
