(* A release/acquire fragment of the C++11/Rust memory model, enough to state that data
   initialised before it is published in the map happens-before every access made after
   obtaining it from the map, also through intermediate copies made by other threads.
   The consistency facts of the fragment are Section hypotheses (visible premises of the
   theorems), never axioms. Definitions only. *)
From Flurry Require Export Model.Atomics.

Section HB.
Variable event : Type.
Variable po : event -> event -> Prop.          (* sequenced-before (same thread) *)
Variable rf : event -> event -> Prop.          (* reads-from *)
Variable ord_of : event -> ord.
Variable unlock_lock : event -> event -> Prop. (* a mutex unlock and a later lock of the same mutex *)

(* synchronizes-with: a release (or stronger) write read by an acquire (or stronger) read, or a
   mutex hand-over *)
Inductive sw : event -> event -> Prop :=
| sw_ra w r : rf w r -> ge_release (ord_of w) = true -> ge_acquire (ord_of r) = true -> sw w r
| sw_mutex u l : unlock_lock u l -> sw u l.

Inductive hb : event -> event -> Prop :=
| hb_po a b : po a b -> hb a b
| hb_sw a b : sw a b -> hb a b
| hb_trans a b c : hb a b -> hb b c -> hb a c.

(* reflexive version *)
Definition hbeq (a b : event) : Prop := a = b \/ hb a b.

(* one hop of a publication path: the data is complete at `a`; a later (or the same) event of
   that thread publishes it with a synchronising write `p`; `q` synchronises with `p`; the data
   is accessed at `b`, after (or at) `q` in q's thread *)
Inductive hop : event -> event -> Prop :=
| hop_intro a p q b : (a = p \/ po a p) -> sw p q -> (q = b \/ po q b) -> hop a b.

(* a path through any number of intermediate copies *)
Inductive path : event -> event -> Prop :=
| path_one a b : hop a b -> path a b
| path_cons a b c : hop a b -> path b c -> path a c.
End HB.
