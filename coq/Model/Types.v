(* Compile-time properties over tables regenerated from the source: lifetimes of
   borrow-returning methods (C16) and thread-safety bounds of inserting entry points (C17).
   Definitions only. *)
From Coq Require Import List String Bool NArith.
From Flurry Require Export Gen.GenSig Gen.GenBounds Model.Atomics.
Import ListNotations.
Open Scope string_scope.

(* ---------- C16 ---------- *)
Definition collection_ty (t : string) : bool :=
  mem t ["HashMap"; "HashSet"; "HashMapRef"; "HashSetRef"].

(* x <= y: lifetime x cannot outlive lifetime y - they are the same, or a bound `'y: 'x` (y outlives
   x) is declared on the method or its impl, directly or through a chain of such bounds *)
Fixpoint lt_le (fuel : nat) (bs : list (string * string)) (x y : string) : bool :=
  (x =? y) ||
  match fuel with
  | O => false
  | S f => existsb (fun b => (snd b =? x) && lt_le f bs (fst b) y) bs
  end.
(* EVERY lifetime the result's type carries - every reference handed out, each half of a pair - is
   bounded by the lifetime of `self` (an elided return lifetime is the lifetime of `&self` by the
   elision rules) ... *)
Definition tied_to_self (r : sigrow) : bool :=
  negb (g_self r =? "") && negb (g_self r =? "owned") &&
  negb (match g_ret_lts r with [] => true | _ => false end) &&
  forallb (fun x => lt_le 4 (g_outlives r) x (g_self r)) (g_ret_lts r).
(* ... and by the lifetime of every guard parameter *)
Definition tied_to_guards (r : sigrow) : bool :=
  forallb (fun g => negb (g =? "_") && forallb (fun x => lt_le 4 (g_outlives r) x g) (g_ret_lts r)) (g_guards r).

Definition borrow_row (r : sigrow) : bool := g_borrow r && collection_ty (g_ty r).
Definition row_tied (r : sigrow) : bool := tied_to_self r && tied_to_guards r.
Definition all_results_tied : bool := forallb (fun r => if borrow_row r then row_tied r else true) sigs.
Definition untied : list (string * string) :=
  map (fun r => (g_ty r, g_name r)) (filter (fun r => borrow_row r && negb (row_tied r)) sigs).
(* the converse half: a lookup key `Q` may be unsized (`str` for `String` keys), so that a borrowed
   key never has to live as long as the stored one *)
Definition lookup_keys_may_be_unsized : bool := forallb (fun r => negb (g_q_sized r)) sigs.
Definition sized_lookup_keys : list (string * string) :=
  map (fun r => (g_ty r, g_name r)) (filter g_q_sized sigs).
(* ... and carries no named lifetime: a parameter that is neither `self` nor a guard (a lookup key, a
   key or value moved in, a closure) never has to live as long as the result or the guard *)
Definition lookup_keys_unconstrained : bool := forallb (fun r => match g_key_lts r with [] => true | _ => false end) sigs.
Definition constrained_lookup_keys : list (string * string * list string) :=
  map (fun r => (g_ty r, g_name r, g_key_lts r)) (filter (fun r => match g_key_lts r with [] => false | _ => true end) sigs).
Definition no_static_bounds : bool := forallb (fun r => negb (g_static r)) sigs.
Definition borrow_rows : nat := List.length (filter borrow_row sigs).

(* ---------- C17 ---------- *)
Definition fn_of (b : boundrow) : option fninfo :=
  find (fun f => (f_file f =? b_file b) && N.eqb (f_line f) (b_line b)) fns.
(* calls to trait methods of the (generic) key and value types are not calls into the crate *)
Definition user_trait_calls : list string := ["clone/0"; "eq/1"; "cmp/1"; "hash/1"; "fmt/1"; "default/0"; "drop/0"].
Definition inserts (b : boundrow) : bool :=
  match fn_of b with
  | Some f => mem "put/4" (closure 4000 (f_calls f) user_trait_calls)
              (* compute_if_present stores a new value without going through put *)
              || mem "compute_if_present/3" (closure 4000 (f_calls f) user_trait_calls)
              || (f_name f =? "compute_if_present")
  | None => false
  end.
Definition bounds_ok (b : boundrow) : bool :=
  b_k_send b && b_k_sync b && (negb (b_has_v b) || (b_v_send b && b_v_sync b)).
Definition inserting_rows : list boundrow := filter (fun b => b_pub b && inserts b) bounds.
Definition inserting_require_send_sync : bool := forallb bounds_ok inserting_rows.
Definition unbounded_inserters : list (string * string) :=
  map (fun b => (b_ty b, b_name b)) (filter (fun b => negb (bounds_ok b)) inserting_rows).

Definition lookup_names : list string :=
  ["get"; "get_key_value"; "contains_key"; "contains"; "iter"; "keys"; "values"; "len"; "is_empty"; "guard"; "pin";
   "with_guard"; "is_disjoint"; "is_subset"; "is_superset"; "index"].
Definition lookups_unbounded : bool :=
  forallb (fun b => if mem (b_name b) lookup_names && collection_ty (b_ty b) && ((b_trait b =? "") || (b_trait b =? "Index"))
                    then negb (b_k_send b || b_k_sync b || b_v_send b || b_v_sync b) else true) bounds.

Definition binentry_conditional : bool :=
  forallb (fun b => if (b_ty b =? "BinEntry") then
                      if (b_trait b =? "Send") then b_k_send b && b_v_send b
                      else if (b_trait b =? "Sync") then b_k_sync b && b_v_sync b else true
                    else true) bounds
  && Nat.eqb (List.length (filter (fun b => b_ty b =? "BinEntry") bounds)) 2.
