(* Tree bins: a functional (zipper) rendering of node.rs.
   TreeBin::new, find_tree_node, find_or_put_tree_val, remove_tree_node, balance_insertion,
   balance_deletion (CLR, as in the JDK), one case per branch of the Rust loops so that the
   resulting shape and colours are those of the code.  Definitions only. *)
From Flurry Require Export Model.Bin.
Open Scope N_scope.

(* order on (hash, key) *)
Definition ncmp (h k : N) (e : node) : comparison :=
  match N.compare h (nh e) with
  | Eq => N.compare k (nk e)
  | c => c
  end.

Definition is_red (t : tree) : bool := match t with T_ true _ _ _ => true | _ => false end.
Definition blacken (t : tree) : tree := match t with T_ _ l e r => T_ false l e r | L_ => L_ end.
Definition is_leaf (t : tree) : bool := match t with L_ => true | _ => false end.

Inductive dir := DL | DR.
(* one step of the path from a focus up to the root: which child the focus is, the parent's
   colour and entry, and the parent's other child *)
Record frame := F_ { fdir : dir; fred : bool; fe : node; fsib : tree }.
Definition path := list frame.

Definition plug1 (x : tree) (f : frame) : tree :=
  match fdir f with
  | DL => T_ (fred f) x (fe f) (fsib f)
  | DR => T_ (fred f) (fsib f) (fe f) x
  end.
Fixpoint plug (x : tree) (p : path) : tree :=
  match p with
  | [] => x
  | f :: p' => plug (plug1 x f) p'
  end.

(* a rotation whose pivot's parent is null makes the new top black (rotate_left/right) *)
Definition top (rest : path) (t : tree) : tree :=
  match rest with [] => blacken t | _ => t end.

(* ---------- balance_insertion: x is the freshly attached (red) node, p its path ---------- *)
Fixpoint bal_ins (x : tree) (p : path) {struct p} : tree :=
  match p with
  | [] => blacken x
  | f1 :: p1 =>
      if negb (fred f1) then plug x p
      else
        match p1 with
        | [] => plug x p
        | f2 :: p2 =>
            match fdir f2 with
            | DL => (* xp is the left child of xpp; uncle = fsib f2 *)
                if is_red (fsib f2) then
                  bal_ins (T_ true (T_ false (match fdir f1 with DL => x | DR => fsib f1 end) (fe f1)
                                              (match fdir f1 with DL => fsib f1 | DR => x end))
                                   (fe f2) (blacken (fsib f2))) p2
                else
                  match fdir f1, x with
                  | DR, T_ _ b xe c =>
                      (* rotate_left(xp) then rotate_right(xpp) *)
                      plug (top p2 (T_ false (T_ true (fsib f1) (fe f1) b) xe (T_ true c (fe f2) (fsib f2)))) p2
                  | DR, L_ => plug x p
                  | DL, _ =>
                      plug (top p2 (T_ false x (fe f1) (T_ true (fsib f1) (fe f2) (fsib f2)))) p2
                  end
            | DR => (* xp is the right child of xpp; uncle = fsib f2 *)
                if is_red (fsib f2) then
                  bal_ins (T_ true (blacken (fsib f2)) (fe f2)
                                   (T_ false (match fdir f1 with DL => x | DR => fsib f1 end) (fe f1)
                                             (match fdir f1 with DL => fsib f1 | DR => x end))) p2
                else
                  match fdir f1, x with
                  | DL, T_ _ b xe c =>
                      (* rotate_right(xp) then rotate_left(xpp) *)
                      plug (top p2 (T_ false (T_ true (fsib f2) (fe f2) b) xe (T_ true c (fe f1) (fsib f1)))) p2
                  | DL, L_ => plug x p
                  | DR, _ =>
                      plug (top p2 (T_ false (T_ true (fsib f2) (fe f2) (fsib f1)) (fe f1) x)) p2
                  end
            end
        end
  end.

(* descend to the place of (h,k); returns the subtree found there and the path to it *)
Fixpoint locate (t : tree) (h k : N) (p : path) : tree * path :=
  match t with
  | L_ => (L_, p)
  | T_ c l e r =>
      match ncmp h k e with
      | Eq => (t, p)
      | Lt => locate l h k (F_ DL c e r :: p)
      | Gt => locate r h k (F_ DR c e l :: p)
      end
  end.

(* insert a new red leaf for entry e (absent) and rebalance *)
Definition t_insert (t : tree) (e : node) : tree :=
  match t with
  | L_ => T_ false L_ e L_
  | _ => let '(_, p) := locate t (nh e) (nk e) [] in bal_ins (T_ true L_ e L_) p
  end.

(* TreeBin::new: the first node becomes the black root, the others are inserted in list order *)
Definition t_new (l : list node) : tree := fold_left t_insert l L_.
Definition tb_new (l : list node) : tbin := mkTBin (t_new l) l.

(* ---------- find_tree_node ---------- *)
Fixpoint t_find (t : tree) (h k : N) : option node :=
  match t with
  | L_ => None
  | T_ _ l e r =>
      match N.compare (nh e) h with
      | Gt => t_find l h k
      | Lt => t_find r h k
      | Eq =>
          if nk e =? k then Some e
          else match l, r with
               | L_, _ => t_find r h k
               | _, L_ => t_find l h k
               | _, _ => match N.compare (nk e) k with
                         | Gt => t_find l h k
                         | Lt => t_find r h k
                         | Eq => None
                         end
               end
      end
  end.

(* number of key comparisons (Eq and Ord calls) find_tree_node makes *)
Fixpoint t_find_cost (t : tree) (h k : N) : Z :=
  match t with
  | L_ => 0%Z
  | T_ _ l e r =>
      match N.compare (nh e) h with
      | Gt => t_find_cost l h k
      | Lt => t_find_cost r h k
      | Eq =>
          if nk e =? k then 1%Z
          else match l, r with
               | L_, _ => (1 + t_find_cost r h k)%Z
               | _, L_ => (1 + t_find_cost l h k)%Z
               | _, _ => match N.compare (nk e) k with
                         | Gt => (2 + t_find_cost l h k)%Z
                         | Lt => (2 + t_find_cost r h k)%Z
                         | Eq => 2%Z
                         end
               end
      end
  end.

(* replace the value stored at (h,k) *)
Fixpoint t_set (t : tree) (h k : N) (v : Z) : tree :=
  match t with
  | L_ => L_
  | T_ c l e r =>
      match ncmp h k e with
      | Eq => T_ c l (N_ (nh e) (nk e) (ni e) v) r
      | Lt => T_ c (t_set l h k v) e r
      | Gt => T_ c l e (t_set r h k v)
      end
  end.

(* find_or_put_tree_val for an absent key: prepend to the next-list, attach, rebalance *)
Definition tb_put (b : tbin) (e : node) : tbin :=
  mkTBin (t_insert (troot b) e) (e :: tord b).

Definition tb_set (b : tbin) (h k : N) (v : Z) : tbin :=
  mkTBin (t_set (troot b) h k v) (lb_set (tord b) h k v).

(* ---------- balance_deletion ---------- *)
Inductive del_step := Done (t : tree) | Up (x : tree).

(* x (black, possibly the placeholder L_) is the left child of a parent (xpred, xpe) whose other
   child is sib; `rest` is the path above the parent *)
Definition del_left (x : tree) (xpred : bool) (xpe : node) (sib : tree) (rest : path) : del_step :=
  match sib with
  | L_ => Up (T_ xpred x xpe L_)
  | T_ sred sl se sr =>
      if negb (is_red sr) && negb (is_red sl) then Up (T_ xpred x xpe (T_ true sl se sr))
      else
        if negb (is_red sr) then
          (* sl is red: rotate_right(xpr), then the final rotate_left(xp) *)
          match sl with
          | T_ _ sll sle slr =>
              Done (plug (top rest (T_ xpred (T_ false x xpe sll) sle (T_ false slr se sr))) rest)
          | L_ => Done (plug (T_ xpred x xpe sib) rest)
          end
        else
          Done (plug (top rest (T_ xpred (T_ false x xpe sl) se (blacken sr))) rest)
  end.

Definition del_right (x : tree) (xpred : bool) (xpe : node) (sib : tree) (rest : path) : del_step :=
  match sib with
  | L_ => Up (T_ xpred L_ xpe x)
  | T_ sred sl se sr =>
      if negb (is_red sl) && negb (is_red sr) then Up (T_ xpred (T_ true sl se sr) xpe x)
      else
        if negb (is_red sl) then
          match sr with
          | T_ _ srl sre srr =>
              Done (plug (top rest (T_ xpred (T_ false sl se srl) sre (T_ false srr xpe x))) rest)
          | L_ => Done (plug (T_ xpred sib xpe x) rest)
          end
        else
          Done (plug (top rest (T_ xpred (blacken sl) se (T_ false sr xpe x))) rest)
  end.

(* x: the subtree at the place of the removed black node (xred: its colour bit) *)
Fixpoint bal_del (xred : bool) (x : tree) (p : path) {struct p} : tree :=
  match p with
  | [] => x
  | f1 :: rest =>
      if xred then plug (blacken x) p
      else
        match fdir f1 with
        | DL =>
            match fsib f1 with
            | T_ true sl se sr =>
                (* red sibling: rotate_left(xp); xp becomes red, its new sibling is sl *)
                let rest' := F_ DL false se sr :: rest in
                match del_left x true (fe f1) sl rest' with
                | Done t => t
                | Up x' => plug (blacken x') rest'
                end
            | sib =>
                match del_left x (fred f1) (fe f1) sib rest with
                | Done t => t
                | Up x' => bal_del (is_red x') x' rest
                end
            end
        | DR =>
            match fsib f1 with
            | T_ true sl se sr =>
                let rest' := F_ DR false se sl :: rest in
                match del_right x true (fe f1) sr rest' with
                | Done t => t
                | Up x' => plug (blacken x') rest'
                end
            | sib =>
                match del_right x (fred f1) (fe f1) sib rest with
                | Done t => t
                | Up x' => bal_del (is_red x') x' rest
                end
            end
        end
  end.

(* leftmost node of a non-empty tree: (colour, entry, its right child, path from it up to `p`) *)
Fixpoint leftmost (t : tree) (p : path) : option (bool * node * tree * path) :=
  match t with
  | L_ => None
  | T_ c l e r =>
      match l with
      | L_ => Some (c, e, r, p)
      | _ => leftmost l (F_ DL c e r :: p)
      end
  end.

(* remove the node at the focus (colour c, children l r) reached through path p *)
Definition t_delete_at (c : bool) (l r : tree) (p : path) : tree :=
  match l, r with
  | T_ _ _ _ _, T_ _ _ _ _ =>
      (* swap with the successor s: s's entry moves here (keeping this place's colour), the
         doomed node takes s's place and colour, with children (null, s.right) *)
      match leftmost r [] with
      | None => plug (T_ c l (N_ 0 0 0 0%Z) r) p
      | Some (sc, se, sr, sp) =>
          (* sp is the path from s up to (excluding) the focus, inside r *)
          let hp := sp ++ F_ DR c se l :: p in
          match sr with
          | T_ _ _ _ _ => if sc then plug sr hp else bal_del (is_red sr) sr hp
          | L_ => if sc then plug L_ hp else bal_del false L_ hp
          end
      end
  | T_ _ _ _ _, L_ => if c then plug l p else bal_del (is_red l) l p
  | L_, T_ _ _ _ _ => if c then plug r p else bal_del (is_red r) r p
  | L_, L_ => if c then plug L_ p else bal_del false L_ p
  end.

Definition t_delete (t : tree) (h k : N) : tree :=
  match locate t h k [] with
  | (T_ c l _ r, p) => t_delete_at c l r p
  | (L_, _) => t
  end.

(* the "too small to stay a tree" test of remove_tree_node, on the shape before the removal *)
Definition too_small (t : tree) : bool :=
  match t with
  | L_ => true
  | T_ _ l _ r =>
      is_leaf r || match l with L_ => true | T_ _ ll _ _ => is_leaf ll end
  end.

(* remove_tree_node: returns the new bin contents and whether the bin must be untreeified *)
Definition tb_remove (b : tbin) (h k : N) : tbin * bool :=
  let ord' := lb_remove (tord b) h k in
  match ord' with
  | [] => (mkTBin L_ [], true)
  | _ => if too_small (troot b) then (mkTBin (troot b) ord', true)
         else (mkTBin (t_delete (troot b) h k) ord', false)
  end.

(* ---------- enumeration ---------- *)
Fixpoint t_elems (t : tree) : list node :=
  match t with L_ => [] | T_ _ l e r => t_elems l ++ e :: t_elems r end.
Fixpoint t_size (t : tree) : nat :=
  match t with L_ => O | T_ _ l _ r => S (t_size l + t_size r) end.
Fixpoint t_height (t : tree) : nat :=
  match t with L_ => O | T_ _ l _ r => S (Nat.max (t_height l) (t_height r)) end.
