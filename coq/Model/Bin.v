(* Bins: nodes, list bins, the split performed by transfer.  Definitions only. *)
From Flurry Require Export Base.Prelude.
From Coq Require Export NArith.
Open Scope N_scope.

(* hash, key, instance ("which inserted key object is stored"), value payload *)
Record node := N_ { nh : N; nk : N; ni : N; nv : Z }.

Inductive tree := L_ | T_ (red : bool) (l : tree) (e : node) (r : tree).

(* a tree bin: the red-black tree and the `next` list starting at `first` *)
Record tbin := mkTBin { troot : tree; tord : list node }.

Inductive bin := BNull | BList (l : list node) | BTree (t : tbin) | BMoved.

Definition node_eqb (a b : node) : bool :=
  (nh a =? nh b) && (nk a =? nk b) && (ni a =? ni b) && (Z.eqb (nv a) (nv b)).

Definition matches (h k : N) (n : node) : bool := (nh n =? h) && (nk n =? k).

(* ---------- list bins ---------- *)

Fixpoint lb_find (l : list node) (h k : N) : option node :=
  match l with
  | [] => None
  | n :: l' => if matches h k n then Some n else lb_find l' h k
  end.

(* position (1-based, as `bin_count` counts) of the node matching (h,k), if any *)
Fixpoint lb_pos (l : list node) (h k : N) (c : Z) : option Z :=
  match l with
  | [] => None
  | n :: l' => if matches h k n then Some c else lb_pos l' h k (c + 1)%Z
  end.

(* replace the value of the matching node (the stored key instance is kept) *)
Fixpoint lb_set (l : list node) (h k : N) (v : Z) : list node :=
  match l with
  | [] => []
  | n :: l' => if matches h k n then N_ (nh n) (nk n) (ni n) v :: l'
               else n :: lb_set l' h k v
  end.

Fixpoint lb_remove (l : list node) (h k : N) : list node :=
  match l with
  | [] => []
  | n :: l' => if matches h k n then l' else n :: lb_remove l' h k
  end.

(* ---------- transfer of a list bin (map.rs, BinEntry::Node arm of transfer) ---------- *)

Definition hbit (n : N) (x : node) : bool := negb (N.land (nh x) n =? 0).

(* the suffix starting at `last_run`: the longest suffix whose nodes all have the same bit *)
Fixpoint last_run (n : N) (l : list node) : list node :=
  match l with
  | [] => []
  | x :: l' =>
      match l' with
      | [] => l
      | _ => let r := last_run n l' in
             match r with
             | [] => l
             | y :: _ =>
                 (* r starts at l' exactly when all of l' has one bit; then x joins iff same bit *)
                 if (length r =? length l')%nat && Bool.eqb (hbit n x) (hbit n y) then l else r
             end
      end
  end.

(* nodes before last_run are cloned and *prepended* to their list, in order *)
Fixpoint split_prefix (n : N) (pre : list node) (lo hi : list node) : list node * list node :=
  match pre with
  | [] => (lo, hi)
  | x :: pre' => if hbit n x then split_prefix n pre' lo (x :: hi)
                 else split_prefix n pre' (x :: lo) hi
  end.

Definition lb_split (n : N) (l : list node) : list node * list node :=
  let r := last_run n l in
  let pre := firstn (length l - length r) l in
  match r with
  | [] => ([], [])
  | y :: _ => if hbit n y then split_prefix n pre [] r else split_prefix n pre r []
  end.

Definition of_list (l : list node) : bin := match l with [] => BNull | _ => BList l end.

(* ---------- order-preserving split of a tree bin's list ---------- *)
Definition ord_split (n : N) (l : list node) : list node * list node :=
  (filter (fun x => negb (hbit n x)) l, filter (hbit n) l).
