(* C18: where user callbacks run relative to locks and writes. The event sequences are
   regenerated from map.rs (Gen/GenPanic.v); here is the discipline they must satisfy, and the
   fault-injected variants of the sequential operations. Definitions only. *)
From Flurry Require Export Gen.GenPanic Model.Spec.
From Coq Require Import String.
Open Scope bool_scope.

(* Inside a critical section (between binding a lock guard to a local and releasing it) the
   callback comes before every write; lock guards are RAII locals (never temporaries, never
   forgotten), so unwinding from the callback releases the lock with nothing modified. *)
Fixpoint sect_ok (in_lock wrote : bool) (evs : list sev) : bool :=
  match evs with
  | [] => true
  | SLock _ :: r => negb in_lock && sect_ok true false r
  | SLockTemp :: _ => false
  | SForget :: _ => false
  | SCallback _ :: r => negb (in_lock && wrote) && sect_ok in_lock wrote r
  | SWrite _ :: r => sect_ok in_lock true r
  | SMutator _ :: r => sect_ok in_lock wrote r
  | SUnlock _ :: r => sect_ok false false r
  end.

Definition is_callback (e : sev) : bool := match e with SCallback _ => true | _ => false end.
Definition is_lock (e : sev) : bool := match e with SLock _ | SLockTemp => true | _ => false end.

Definition callbacks_ok : bool :=
  forallb (fun p => sect_ok false false (snd p) && existsb is_callback (snd p)) callback_functions
  && Nat.eqb (List.length callback_functions) 3.

(* retain / retain_force call the predicate while holding no lock at all *)
Definition retain_lock_free : bool :=
  forallb (fun p => if (String.eqb (fst p) "retain" || String.eqb (fst p) "retain_force")%string
                    then negb (existsb is_lock (snd p)) else true) callback_functions.

Section Faults.
Variable khash : N -> N.
Variable keep : N -> N -> Z -> bool.
Variable remap : N -> N -> Z -> option Z.

(* retain whose i-th predicate call panics: exactly the entries yielded before it were processed *)
Definition retain_until (s : st) (p : N) (i : nat) : st :=
  fold_left (fun acc n => if keep p (nk n) (nv n) then acc else fst (remove khash acc (nk n)))
            (firstn i (nodes s)) s.

(* compute_if_present whose callback panics: the callback is reached only with the table
   present and the key found, and nothing has been modified at that point *)
Definition compute_reaches_callback (s : st) (k : N) : option Z :=
  match get_node khash s k with Some n => Some (nv n) | None => None end.
End Faults.
