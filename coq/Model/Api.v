(* Guard discipline over the regenerated API table (Gen/GenApi.v). *)
From Coq Require Import List String Bool NArith.
From Flurry Require Export Gen.GenApi.
Import ListNotations.
Open Scope string_scope.

Definition find_row (ty name : string) : option api_row :=
  find (fun r => (a_ty r =? ty) && (a_name r =? name) && (a_trait r =? "")) api.

(* A guard parameter is safe when the function starts by checking it, or when its only uses are
   to pass it on to functions all of whose guard parameters are safe. *)
Fixpoint guard_ok (fuel : nat) (g : ginfo) : bool :=
  g_check_first g ||
  match fuel with
  | O => false
  | S fuel' =>
      negb (match g_uses g with [] => true | _ => false end) &&
      forallb (fun u =>
        match u with
        | UOther _ => false
        | UArg cty root m =>
            match find_row cty m with
            | None => false
            | Some r =>
                negb (match a_guards r with [] => true | _ => false end) &&
                forallb (guard_ok fuel') (a_guards r)
            end
        end) (g_uses g)
  end.

Definition callee_ok (fuel : nat) (u : guse) : bool :=
  match u with
  | UOther _ => false
  | UArg cty root m =>
      match find_row cty m with
      | None => false
      | Some r => negb (match a_guards r with [] => true | _ => false end)
                  && forallb (guard_ok fuel) (a_guards r)
      end
  end.

Definition is_facade (r : api_row) : bool :=
  (a_ty r =? "HashMapRef") || (a_ty r =? "HashSetRef").
Definition is_collection (r : api_row) : bool :=
  (a_ty r =? "HashMap") || (a_ty r =? "HashSet").

(* rows that accept a guard from the caller: public guard-taking methods of the collections,
   and every facade method that forwards the (unchecked) guard stored by with_guard *)
Definition row_ok (fuel : nat) (r : api_row) : bool :=
  if negb (a_pub r) then true
  else if is_collection r && negb (match a_guards r with [] => true | _ => false end)
       && negb (a_name r =? "with_guard")
  then forallb (guard_ok fuel) (a_guards r)
  else if is_facade r && (a_own r =? "field")
  then forallb (callee_ok fuel) (a_local_uses r)
  else true.

Definition guard_entry (r : api_row) : bool :=
  a_pub r &&
  ((is_collection r && negb (match a_guards r with [] => true | _ => false end)
    && negb (a_name r =? "with_guard"))
   || (is_facade r && (a_own r =? "field"))).

Definition all_entry_points_ok : bool := forallb (row_ok 6) api.
Definition offending : list (string * string) :=
  map (fun r => (a_ty r, a_name r)) (filter (fun r => negb (row_ok 6 r)) api).
