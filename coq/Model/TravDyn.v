(* The DYNAMIC side of the traverser model: a resize migrates the bins of table j into table j+1
   one bin at a time (map.rs `transfer`) while an iterator may be live.  Definitions only.

   One migration step of bin i of table j (length n): the nodes of the bin are split by one hash
   bit (abstracted as a boolean splitter `hi`); the low part is stored at index i of table j+1,
   the high part at index i + n, and bin i of table j becomes the forwarding marker BMoved.
   The real code may reverse part of the list order and may build tree bins for the two halves;
   all theorems about `migrate` are therefore stated up to Permutation, so that order and the
   list/tree representation are irrelevant. *)
From Flurry Require Export Model.Trav.
From Coq Require Import List Arith.
Import ListNotations.
Open Scope nat_scope.

Fixpoint set_nth {A : Type} (n : nat) (x : A) (l : list A) {struct l} : list A :=
  match l with
  | [] => []
  | a :: t => match n with
              | O => x :: t
              | S n' => a :: set_nth n' x t
              end
  end.

Definition mk_bin (l : list node) : bin :=
  match l with [] => BNull | _ :: _ => BList l end.

Definition is_moved (b : bin) : bool := match b with BMoved => true | _ => false end.
Definition is_null (b : bin) : bool := match b with BNull => true | _ => false end.

Definition migrate (hi : node -> bool) (f : forest) (j i : nat) : forest :=
  let tj := table_of f j in
  let n := length tj in
  let b := nth i tj BNull in
  let lo_part := filter (fun x => negb (hi x)) (bin_list b) in
  let hi_part := filter hi (bin_list b) in
  let tj1 := set_nth (i + n) (mk_bin hi_part) (set_nth i (mk_bin lo_part) (table_of f (S j))) in
  set_nth (S j) tj1 (set_nth j (set_nth i BMoved tj) f).

(* the step is enabled: a next table exists, the bin is in range and not yet forwarded, and the
   two target bins of the next table are still empty (each old bin is migrated exactly once, and
   the new table's bins are empty until filled) *)
Definition can_migrate (f : forest) (j i : nat) : bool :=
  Nat.ltb (S j) (length f) &&
  Nat.ltb i (tlen_of f j) &&
  negb (is_moved (nth i (table_of f j) BNull)) &&
  is_null (nth i (table_of f (S j)) BNull) &&
  is_null (nth (i + tlen_of f j) (table_of f (S j)) BNull).

Definition migrate_guarded (hi : node -> bool) (f : forest) (ji : nat * nat) : forest :=
  if can_migrate f (fst ji) (snd ji) then migrate hi f (fst ji) (snd ji) else f.

(* a list of guarded migration steps, applied left to right *)
Fixpoint migrates (hi : node -> bool) (steps : list (nat * nat)) (f : forest) : forest :=
  match steps with
  | [] => f
  | ji :: rest => migrates hi rest (migrate_guarded hi f ji)
  end.

(* every node stored anywhere in the forest (reachable or not) *)
Definition all_nodes (f : forest) : list node := flat_map (flat_map bin_list) f.

(* an interleaved run of a live iterator and the resize: `None` is one call of next() (the
   yielded node is collected, the run stops at the first exhausted answer), `Some (j,i)` is one
   guarded migration step of bin i of table j *)
Fixpoint drain_dyn (hi : node -> bool) (sched : list (option (nat * nat))) (fuel : nat)
                   (f : forest) (it : titer) : list node :=
  match sched with
  | [] => []
  | None :: s =>
      match advance fuel f it with
      | (Some x, it') => x :: drain_dyn hi s fuel f it'
      | (None, _) => []
      end
  | Some ji :: s => drain_dyn hi s fuel (migrate_guarded hi f ji) it
  end.

(* the same run, also returning the forest and the iterator state it ends in *)
Fixpoint drain_dyn_end (hi : node -> bool) (sched : list (option (nat * nat))) (fuel : nat)
                       (f : forest) (it : titer) : list node * (forest * titer) :=
  match sched with
  | [] => ([], (f, it))
  | None :: s =>
      match advance fuel f it with
      | (Some x, it') => let r := drain_dyn_end hi s fuel f it' in (x :: fst r, snd r)
      | (None, it') => ([], (f, it'))
      end
  | Some ji :: s => drain_dyn_end hi s fuel (migrate_guarded hi f ji) it
  end.
