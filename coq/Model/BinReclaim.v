(* The two disciplines the reclamation theorem (Model/Reclaim.v, C03_no_use_after_free) takes as
   premises, stated for the list-bin protocol model Model/BinProto.v, where every call runs under
   one guard from its invocation to its return:
     D1  a cell is unlinked at most once, and is never reachable again afterwards
         (the code retires a node right after unlinking it, once);
     D2  a call only ever holds (and so dereferences) cells that were not yet unlinked when the
         call was invoked - it reached them through the structure while its guard was active.
   The unlink log is a function of the run (the configurations are not changed by it).
   Definitions only. *)
From Flurry Require Export Model.BinProto.
Open Scope Z_scope.

(* the cell an unlinking step removes from its chain *)
Definition unlink_target (c : cfg) (t : nat) : option nat :=
  match at_ (get_thr c t) with
  | RmUnlink _ _ _ e _ _ => Some e
  | CpApply _ _ _ p _ _ None => Some p
  | _ => None
  end.

(* every address a thread's program counter holds: the cells it may dereference next *)
Definition held_cells (p : pc) : list nat :=
  let o := fun (x : option nat) => match x with Some a => [a] | None => [] end in
  match p with
  | GWalk _ a => [a]
  | PutFast _ _ h => [h]
  | PutLock _ _ _ h => [h]
  | PutReval _ _ _ h => [h]
  | PutWalk _ _ _ h a => [h; a]
  | PutUnlock h _ _ => [h]
  | RmLock _ _ h => [h]
  | RmReval _ _ h => [h]
  | RmWalk _ _ h pred e => h :: e :: o pred
  | RmFound _ _ h pred e nxt => h :: e :: o pred ++ o nxt
  | RmUnlink _ h pred e nxt _ => h :: e :: o pred ++ o nxt
  | CpLock _ _ h => [h]
  | CpReval _ _ h => [h]
  | CpWalk _ _ h pred a => h :: a :: o pred
  | CpFound _ _ h pred a nxt => h :: a :: o pred ++ o nxt
  | CpApply _ h pred a nxt _ _ => h :: a :: o pred ++ o nxt
  | PStart _ | PutCas _ _ _ | PDone => []
  end.

Section Log.
Variable khash : N -> N.
Variable nbins : nat.

(* (cell, time) of every unlink performed along the schedule; time = `now` after the step *)
Fixpoint unlink_log (c : cfg) (sched : list nat) : list (nat * N) :=
  match sched with
  | [] => []
  | t :: s' =>
      let c' := step khash nbins c t in
      match unlink_target c t with
      | Some a => (a, now c') :: unlink_log c' s'
      | None => unlink_log c' s'
      end
  end.

(* the addresses on the chain of bin b *)
Fixpoint chain_addrs (s : shared) (fuel : nat) (p : option nat) : list nat :=
  match fuel, p with
  | S f, Some a => a :: chain_addrs s f (cnext (cell_at s a))
  | _, _ => []
  end.
Definition reachable (c : cfg) (a : nat) : bool :=
  existsb (fun b => existsb (Nat.eqb a) (chain_addrs (sh c) (S (length (heap (sh c)))) (bin_at (sh c) b)))
          (seq 0 nbins).

End Log.
