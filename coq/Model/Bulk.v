(* Bulk paths (C19) at the level of the abstract map: deserialisation inserts the entries one
   by one (serde_impls.rs visit_map / visit_seq), serialisation lists the entries (iteration),
   parallel extend/collect inserts the items in some interleaving. Definitions only. *)
From Flurry Require Export Model.Spec.
From Coq Require Import String.
From Flurry Require Import Gen.GenApi.
Open Scope Z_scope.

Definition de (entries : list (N * N * Z)) : amap := aput_all aempty entries.

(* the value supplied last for k, if any *)
Fixpoint last_val (entries : list (N * N * Z)) (k : N) : option Z :=
  match entries with
  | [] => None
  | (k', _, v) :: rest =>
      match last_val rest k with
      | Some v' => Some v'
      | None => if (k' =? k)%N then Some v else None
      end
  end.

Definition supplied (entries : list (N * N * Z)) (k : N) (v : Z) : Prop :=
  exists i, In (k, i, v) entries.

(* the deserialisation visitors contain no panicking macro (regenerated from serde_impls.rs) *)
Open Scope string_scope.
Definition is_visitor (r : api_row) : bool :=
  (a_file r =? "serde_impls.rs") && ((a_name r =? "visit_map") || (a_name r =? "visit_seq")).
Definition visitors_total : bool :=
  forallb (fun r => if is_visitor r then match a_notes r with [] => true | _ => false end else true) api
  && Nat.eqb (List.length (filter is_visitor api)) 2.
