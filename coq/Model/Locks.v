(* Lock nesting, over tables regenerated from the source on every run:
   Gen/GenLocks.v   one row per `let g = x.lock();` with the calls and blocking sites in the lexical
                    extent of the guard (up to `drop(g)` / the end of the block);
   Gen/GenAtomics.v the call graph (resolution by method name and arity: an over-approximation)
                    and the blocking sites of every function.
   Definitions only. *)
From Flurry Require Export Gen.GenLocks Model.Atomics.
From Coq Require Import List String Bool NArith.
Import ListNotations.
Open Scope string_scope.

(* Calls on values of the user's types K, V, Q, S (clone, comparison, hashing, formatting, drop)
   are not followed: by name they would be confused with the collection's own impls of the same
   traits (HashMap::clone inserts).  What they are called on is checked below for clone, the one
   that matters (clones_are_of_keys_and_values); a user impl that re-enters the same map from
   inside a bin's critical section is outside the property. *)
Definition user_trait_calls : list string := ["clone/0"; "eq/1"; "cmp/1"; "hash/1"; "fmt/1"; "default/0"; "drop/0"].

Fixpoint closure_skip (fuel : nat) (frontier seen : list string) : list string :=
  match fuel with
  | O => seen
  | S fuel' =>
      match frontier with
      | [] => seen
      | x :: rest =>
          if mem x seen || mem x user_trait_calls then closure_skip fuel' rest seen
          else closure_skip fuel' (callees x ++ rest) (x :: seen)
      end
  end.

(* functions reachable from the calls made inside an extent *)
Definition ext_reach (e : lockext) : list string := closure_skip 4000 (l_calls e) [].

(* inside an extent, and in every function reachable from one, `.clone()` is only ever called on a
   field or variable named key / value (a K or a V), never on a map or set *)
Definition clone_recv_ok (r : string) : bool := mem r ["key"; "value"; "k"; "v"].
Definition clones_are_of_keys_and_values : bool :=
  forallb (fun e => forallb clone_recv_ok (l_clone_recvs e) &&
                    forallb (fun f => if mem (key_of f) (ext_reach e) then forallb clone_recv_ok (f_clone_recvs f) else true) fns)
          lock_extents.

(* (function, kind) of every blocking site that can execute while the guard is held *)
Definition ext_blocking (e : lockext) : list (string * string) :=
  map (fun b => (l_fn e, fst b)) (l_blocking e) ++ blocking_in (ext_reach e).

(* no second mutex is acquired while a bin mutex is held *)
Definition ext_mutex_free (e : lockext) : bool :=
  forallb (fun b => negb (snd b =? "lock")) (ext_blocking e).
Definition all_extents_mutex_free : bool := forallb ext_mutex_free lock_extents.
Definition nested_mutex : list (string * N * list (string * string)) :=
  map (fun e => (l_fn e, l_line e, filter (fun b => snd b =? "lock") (ext_blocking e)))
      (filter (fun e => negb (ext_mutex_free e)) lock_extents).

(* every `.lock()` in the sources is the initialiser of such a guard (none escapes the table) *)
Definition extents_cover_lock_sites : bool := (N.of_nat (List.length lock_extents) =? n_lock_sites)%N.

(* the only other waits under a bin mutex are those of the tree-bin write lock (lock_root /
   contended_lock: park and spin on lock_state), whose wake-up and termination are the TreeLock
   theorems; the readers it waits for hold no mutex (C12) *)
Definition tree_lock_fns : list string := ["lock_root"; "contended_lock"].
Definition ext_waits_ok (e : lockext) : bool :=
  forallb (fun b => (snd b =? "lock") || mem (fst b) tree_lock_fns) (ext_blocking e).
Definition all_extent_waits_are_tree_lock : bool := forallb ext_waits_ok lock_extents.

(* guards are released by an explicit drop on the straight-line path (early exits release them by
   scope: Rust RAII) *)
Definition all_explicit_drops : bool := forallb l_explicit_drop lock_extents.

(* the graph sees something: tree-bin writers do reach the tree lock from inside an extent *)
Definition extents_reach_tree_lock : bool :=
  existsb (fun e => existsb (fun b => mem (fst b) tree_lock_fns) (ext_blocking e)) lock_extents.
