(* Lock nesting, over tables regenerated from the source on every run:
   Gen/GenLocks.v   one row per `let g = x.lock();` with the calls and blocking sites in the lexical
                    extent of the guard (up to `drop(g)` / the end of the block);
   Gen/GenAtomics.v the call graph (resolution by method name and arity: an over-approximation)
                    and the blocking sites of every function.
   Definitions only. *)
From Flurry Require Export Gen.GenLocks Model.Atomics.
From Coq Require Import List String Bool NArith.
Import ListNotations.
Open Scope string_scope.

(* Calls on values of the user's types K, V, Q, S (clone, comparison, hashing, formatting, drop)
   are not followed: by name they would be confused with the collection's own impls of the same
   traits (HashMap::clone inserts).  What they are called on is checked below for clone, the one
   that matters (clones_are_of_keys_and_values); a user impl that re-enters the same map from
   inside a bin's critical section is outside the property. *)
Definition user_trait_calls : list string := ["clone/0"; "eq/1"; "cmp/1"; "hash/1"; "fmt/1"; "default/0"; "drop/0"].

Fixpoint closure_skip (fuel : nat) (frontier seen : list string) : list string :=
  match fuel with
  | O => seen
  | S fuel' =>
      match frontier with
      | [] => seen
      | x :: rest =>
          if mem x seen || mem x user_trait_calls then closure_skip fuel' rest seen
          else closure_skip fuel' (callees x ++ rest) (x :: seen)
      end
  end.

(* functions reachable from the calls made inside an extent *)
Definition ext_reach (e : lockext) : list string := closure_skip 4000 (l_calls e) [].

(* inside an extent, and in every function reachable from one, `.clone()` is only ever called on a
   field or variable named key / value (a K or a V), never on a map or set *)
Definition clone_recv_ok (r : string) : bool := mem r ["key"; "value"; "k"; "v"].
Definition clones_are_of_keys_and_values : bool :=
  forallb (fun e => forallb clone_recv_ok (l_clone_recvs e) &&
                    forallb (fun f => if mem (key_of f) (ext_reach e) then forallb clone_recv_ok (f_clone_recvs f) else true) fns)
          lock_extents.

(* (function, kind) of every blocking site that can execute while the guard is held *)
Definition ext_blocking (e : lockext) : list (string * string) :=
  map (fun b => (l_fn e, fst b)) (l_blocking e) ++ blocking_in (ext_reach e).

(* no second mutex is acquired while a bin mutex is held *)
Definition ext_mutex_free (e : lockext) : bool :=
  forallb (fun b => negb (snd b =? "lock")) (ext_blocking e).
Definition all_extents_mutex_free : bool := forallb ext_mutex_free lock_extents.
Definition nested_mutex : list (string * N * list (string * string)) :=
  map (fun e => (l_fn e, l_line e, filter (fun b => snd b =? "lock") (ext_blocking e)))
      (filter (fun e => negb (ext_mutex_free e)) lock_extents).

(* every `.lock()` in the sources is the initialiser of such a guard (none escapes the table) *)
Definition extents_cover_lock_sites : bool := (N.of_nat (List.length lock_extents) =? n_lock_sites)%N.

(* the only other waits under a bin mutex are those of the tree-bin write lock (lock_root /
   contended_lock: park and spin on lock_state), whose wake-up and termination are the TreeLock
   theorems; the readers it waits for hold no mutex (C12) *)
Definition tree_lock_fns : list string := ["lock_root"; "contended_lock"].
Definition ext_waits_ok (e : lockext) : bool :=
  forallb (fun b => (snd b =? "lock") || mem (fst b) tree_lock_fns) (ext_blocking e).
Definition all_extent_waits_are_tree_lock : bool := forallb ext_waits_ok lock_extents.

(* guards are released by an explicit drop on the straight-line path (early exits release them by
   scope: Rust RAII) *)
Definition all_explicit_drops : bool := forallb l_explicit_drop lock_extents.

(* the graph sees something: tree-bin writers do reach the tree lock from inside an extent *)
Definition extents_reach_tree_lock : bool :=
  existsb (fun e => existsb (fun b => mem (fst b) tree_lock_fns) (ext_blocking e)) lock_extents.

(* ---------- the tree-bin write lock: who may write tree links with Relaxed ordering ----------
   (the C15 discipline "UnderTreeWriteLock" and C11's exclusion theorem assume it)
   - a function that calls lock_root() performs every Relaxed store to node.rs cells between its
     lock_root() and its unlock_root();
   - the restructuring helpers (balance_insertion / balance_deletion / rotate_left / rotate_right)
     are only called from there, or from each other, or from TreeBin::new, which builds a tree
     nobody else can see yet. *)
Definition tree_helpers : list string := ["balance_insertion"; "balance_deletion"; "rotate_left"; "rotate_right"].
Definition private_builders : list string := ["new"].

Definition in_extent (f : treelockfn) (l : N) : bool :=
  existsb (fun lo => existsb (fun hi => (lo <? l)%N && (l <? hi)%N) (tl_unlocks f)) (tl_locks f).
Definition find_tl (fn : string) : option treelockfn := find (fun f => tl_fn f =? fn) tree_lock_fns_tbl.
Definition is_locker (f : treelockfn) : bool := match tl_locks f with [] => false | _ => true end.

(* Relaxed stores in functions that take the write lock themselves lie inside the lock *)
Definition store_ok (s : string * N * string) : bool :=
  let '(fn, l, _) := s in
  match find_tl fn with
  | Some f => if is_locker f then in_extent f l else true
  | None => true
  end.
Definition relaxed_stores_inside_write_lock : bool := forallb store_ok relaxed_stores_node_rs.
Definition stores_outside_write_lock : list (string * N * string) :=
  filter (fun s => negb (store_ok s)) relaxed_stores_node_rs.

(* every other function with a Relaxed store is a helper or a private builder *)
Definition store_fn_ok (s : string * N * string) : bool :=
  let '(fn, _, _) := s in
  match find_tl fn with
  | Some f => is_locker f || mem fn tree_helpers || mem fn private_builders
  | None => mem fn tree_helpers || mem fn private_builders
  end.
Definition relaxed_stores_only_in_known_functions : bool := forallb store_fn_ok relaxed_stores_node_rs.

(* helper calls: from inside an extent of a locker, from a helper, or from a private builder *)
Definition helper_calls_ok (f : treelockfn) : bool :=
  forallb (fun c => if is_locker f then in_extent f (snd c)
                    else mem (tl_fn f) tree_helpers || mem (tl_fn f) private_builders) (tl_helpers f).
Definition helpers_called_under_write_lock : bool := forallb helper_calls_ok tree_lock_fns_tbl.

(* one lock_root and one unlock_root per locker, in this order (so that "between" means held) *)
Definition lockers_well_bracketed : bool :=
  forallb (fun f => if is_locker f
                    then match tl_locks f, tl_unlocks f with
                         | [lo], [hi] => (lo <? hi)%N
                         | _, _ => false
                         end
                    else match tl_unlocks f with [] => true | _ => false end) tree_lock_fns_tbl.
Definition lockers_exist : bool := existsb is_locker tree_lock_fns_tbl.
