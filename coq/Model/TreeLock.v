(* The parasitic read-write lock of a tree bin (node.rs: lock_root / contended_lock /
   unlock_root for the writer, the tree-mode attempt of TreeBin::find for readers), as an
   executable state machine: lock_state, the waiter handle, one sticky park token per thread.
   One writer at a time (it holds the bin mutex), any number of readers, any schedule.
   WRITER / WAITER / READER are the constants regenerated from node.rs. One step = one shared
   operation. Definitions only. *)
From Flurry Require Export Model.Arith.
Open Scope Z_scope.

(* bit tests on lock_state, as the code writes them *)
Definition has_writer_or_waiter (s : Z) : bool := negb (Z.land s (Z.lor WAITER WRITER) =? 0).
Definition only_waiter_bit (s : Z) : bool := Z.land s (Z.lnot WAITER) =? 0.   (* state & !WAITER == 0 *)
Definition waiter_bit_clear (s : Z) : bool := Z.land s WAITER =? 0.

Inductive wpc :=
| WIdle (rounds : nat)               (* holds the bin mutex, about to call lock_root; rounds left *)
| WFirstCas (rounds : nat)           (* lock_root: CAS 0 -> WRITER *)
| WLoad (rounds : nat) (waiting : bool)             (* contended_lock: load lock_state *)
| WCasWriter (rounds : nat) (waiting : bool) (s : Z) (* CAS s -> WRITER *)
| WClearWaiter (rounds : nat)        (* swap waiter := null after winning while waiting *)
| WCasWaiter (rounds : nat) (waiting : bool) (s : Z) (* CAS s -> s | WAITER *)
| WSetWaiter (rounds : nat)          (* swap waiter := me *)
| WPark (rounds : nat)               (* park() *)
| WHeld (rounds : nat)               (* write lock held: restructuring the tree *)
| WUnlock (rounds : nat)             (* unlock_root: store 0 *)
| WDone.

Inductive rpc :=
| RLoad (elems : nat)                (* per element: load lock_state *)
| RCas (elems : nat) (s : Z)         (* CAS s -> s + READER *)
| RInside                            (* searching the tree under the read lock *)
| RExit                              (* fetch_add(-READER) *)
| RLoadWaiter                        (* last reader with a waiting writer: load waiter *)
| RUnpark (w : nat)                  (* unpark the waiter *)
| RDone.

Inductive tpc := W (p : wpc) | R (p : rpc).

Record cfg := mkC {
  ls : Z;                      (* lock_state *)
  waiter : option nat;         (* TreeBin::waiter: the parked writer's thread *)
  tokens : list bool;          (* park tokens *)
  thr : list tpc
}.

Definition get_thr (c : cfg) (t : nat) : tpc := nth t (thr c) (R RDone).
Definition upd (c : cfg) (t : nat) (p : tpc) : cfg :=
  mkC (ls c) (waiter c) (tokens c) (firstn t (thr c) ++ p :: skipn (S t) (thr c)).
Definition set_ls (c : cfg) (v : Z) : cfg := mkC v (waiter c) (tokens c) (thr c).
Definition set_waiter (c : cfg) (w : option nat) : cfg := mkC (ls c) w (tokens c) (thr c).
Definition token (c : cfg) (t : nat) : bool := nth t (tokens c) false.
Definition set_token (c : cfg) (t : nat) (b : bool) : cfg :=
  mkC (ls c) (waiter c) (firstn t (tokens c) ++ b :: skipn (S t) (tokens c)) (thr c).

(* a thread is blocked exactly when it is about to park and holds no token *)
Definition enabled (c : cfg) (t : nat) : bool :=
  match get_thr c t with
  | W (WPark _) => token c t
  | W WDone | R RDone => false
  | _ => true
  end.

Definition step (c : cfg) (t : nat) : cfg :=
  match get_thr c t with
  (* ---------------- writer ---------------- *)
  | W (WIdle (S r)) => upd c t (W (WFirstCas r))
  | W (WIdle O) => upd c t (W WDone)
  | W (WFirstCas r) =>
      if ls c =? 0 then upd (set_ls c WRITER) t (W (WHeld r))
      else upd c t (W (WLoad r false))
  | W (WLoad r waiting) =>
      let s := ls c in
      if only_waiter_bit s then upd c t (W (WCasWriter r waiting s))
      else if waiter_bit_clear s then upd c t (W (WCasWaiter r waiting s))
      else if waiting then upd c t (W (WPark r))
      else upd c t (W (WLoad r waiting))                 (* spin_loop *)
  | W (WCasWriter r waiting s) =>
      if ls c =? s then
        if waiting then upd (set_ls c WRITER) t (W (WClearWaiter r))
        else upd (set_ls c WRITER) t (W (WHeld r))
      else upd c t (W (WLoad r waiting))
  | W (WClearWaiter r) => upd (set_waiter c None) t (W (WHeld r))
  | W (WCasWaiter r waiting s) =>
      if ls c =? s then upd (set_ls c (Z.lor s WAITER)) t (W (WSetWaiter r))
      else upd c t (W (WLoad r waiting))
  | W (WSetWaiter r) => upd (set_waiter c (Some t)) t (W (WLoad r true))
  | W (WPark r) =>
      if token c t then upd (set_token c t false) t (W (WLoad r true))
      else c                                             (* blocked *)
  | W (WHeld r) => upd c t (W (WUnlock r))
  | W (WUnlock r) => upd (set_ls c 0) t (W (WIdle r))
  | W WDone => c
  (* ---------------- reader ---------------- *)
  | R (RLoad O) => upd c t (R RDone)                      (* next-list exhausted *)
  | R (RLoad (S e)) =>
      let s := ls c in
      if has_writer_or_waiter s then upd c t (R (RLoad e))    (* list mode: one element *)
      else upd c t (R (RCas (S e) s))
  | R (RCas e s) =>
      if ls c =? s then upd (set_ls c (s + READER)) t (R RInside)
      else upd c t (R (RLoad e))
  | R RInside => upd c t (R RExit)
  | R RExit =>
      let old := ls c in
      let c' := set_ls c (old - READER) in
      if old =? Z.lor READER WAITER then upd c' t (R RLoadWaiter)
      else upd c' t (R RDone)
  | R RLoadWaiter =>
      match waiter c with
      | Some w => upd c t (R (RUnpark w))
      | None => upd c t (R RDone)
      end
  | R (RUnpark w) => upd (set_token c w true) t (R RDone)
  | R RDone => c
  end.

Definition run (c : cfg) (sched : list nat) : cfg := fold_left step sched c.

(* thread 0 is the writer (rounds lock/unlock cycles), threads 1..k are readers *)
Definition init (rounds : nat) (readers : list nat) : cfg :=
  mkC 0 None (repeat false (S (length readers)))
      (W (WIdle rounds) :: map (fun e => R (RLoad e)) readers).

Definition done (p : tpc) : bool := match p with W WDone | R RDone => true | _ => false end.
Definition all_done (c : cfg) : bool := forallb done (thr c).
Definition writer_holds (c : cfg) : bool :=
  existsb (fun p => match p with W (WHeld _) | W (WUnlock _) | W (WClearWaiter _) => true | _ => false end) (thr c).
Definition readers_inside (c : cfg) : nat :=
  length (filter (fun p => match p with R RInside | R RExit => true | _ => false end) (thr c)).
Definition some_enabled (c : cfg) : bool :=
  existsb (enabled c) (seq 0 (length (thr c))).

