(* What an observer of the resize events may rely on, as one boolean predicate over the event log
   of one resize (migrations, publication, entries and exits of transfer).  It is proved of every
   reachable log of Model/ResizeProto.v (Proofs/ResizeLogProofs.v) and evaluated inside Coq on the
   event log the instrumented crate produces for every resize of every scheduled run (the hooks
   BinMigrated / TablePublished / ResizeEnter / ResizeLeave) - the same predicate on both sides, as
   wf_b is for the quiescent structure.  Definitions only. *)
From Flurry Require Export Model.ResizeProto.

Definition cnt (f : event -> bool) (l : list event) : nat := length (filter f l).
Definition is_init_ev (e : event) : bool := match e with EEntered _ true => true | _ => false end.
Definition is_finisher_left (e : event) : bool := match e with ELeft _ true => true | _ => false end.
Definition migrated_index (e : event) : option nat := match e with EMigrated i => Some i | _ => None end.

(* nb = number of bins of the old table *)
Definition log_ok (nb : nat) (l : list event) : bool :=
  (* every bin is migrated at most once, and only bins of the table are *)
  forallb (fun i => Nat.leb (cnt (is_migrated i) l) 1) (seq 0 nb) &&
  forallb (fun e => match migrated_index e with Some i => Nat.ltb i nb | None => true end) l &&
  (* at most one publication, one initiator, one finisher *)
  Nat.leb (cnt is_published l) 1 &&
  Nat.leb (cnt is_init_ev l) 1 &&
  Nat.leb (cnt is_finisher_left l) 1 &&
  (* a published table has received every bin, each exactly once *)
  (if Nat.eqb (cnt is_published l) 1
   then forallb (fun i => Nat.eqb (cnt (is_migrated i) l) 1) (seq 0 nb)
   else true).
