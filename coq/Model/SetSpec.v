(* The set relations of HashSet (is_subset / is_superset / is_disjoint / equality) over the
   abstraction "the set of keys present": the specification the implementation's answers are
   compared with (harness `sets`), and the facts that make it the right one. Definitions only. *)
From Flurry Require Export Base.Prelude.
From Coq Require Export NArith List Bool.
Export ListNotations.

Definition mem_n (x : N) (l : list N) : bool := existsb (N.eqb x) l.
Definition subset_b (a b : list N) : bool := forallb (fun x => mem_n x b) a.
Definition superset_b (a b : list N) : bool := subset_b b a.
Definition disjoint_b (a b : list N) : bool := forallb (fun x => negb (mem_n x b)) a.
Definition seteq_b (a b : list N) : bool := subset_b a b && subset_b b a.

(* what the implementation answered: is_subset, is_superset, is_disjoint, == *)
Record answers := mkAns { a_sub : bool; a_sup : bool; a_dis : bool; a_eq : bool }.

(* 0 = all four agree with the specification; otherwise the first that differs (1..4) *)
Definition rel_check (a b : list N) (r : answers) : N :=
  if negb (Bool.eqb (a_sub r) (subset_b a b)) then 1%N
  else if negb (Bool.eqb (a_sup r) (superset_b a b)) then 2%N
  else if negb (Bool.eqb (a_dis r) (disjoint_b a b)) then 3%N
  else if negb (Bool.eqb (a_eq r) (seteq_b a b)) then 4%N
  else 0%N.
