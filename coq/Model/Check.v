(* Evaluation support for the correspondence check: dumps of the implementation's state are
   written as terms, one model step is applied to each pre-state and compared with the
   post-state the implementation reached. *)
From Flurry Require Export Model.WF.
Open Scope Z_scope.

Record dmp := mkD { d_len : N; d_bins : list (N * bin); d_sc : Z; d_cnt : Z }.

(* sparse bins are listed in increasing index order *)
Fixpoint expand_from (i : nat) (len : nat) (sparse : list (N * bin)) : list bin :=
  match len with
  | O => []
  | S len' =>
      match sparse with
      | (j, b) :: rest =>
          if Nat.eqb (N.to_nat j) i then b :: expand_from (S i) len' rest
          else BNull :: expand_from (S i) len' sparse
      | [] => BNull :: expand_from (S i) len' []
      end
  end.
Definition expand (len : N) (sparse : list (N * bin)) : list bin :=
  expand_from 0 (N.to_nat len) sparse.

Definition to_st (d : dmp) : st :=
  match d_len d with
  | 0%N => mkSt None (d_sc d) (d_cnt d)
  | n => mkSt (Some (expand n (d_bins d))) (d_sc d) (d_cnt d)
  end.

(* a dump given as the changes relative to another dump of the same table length: the changed
   bins (in increasing index order; BNull = the bin became empty) replace the old ones *)
Fixpoint merge_bins (old ch : list (N * bin)) {struct old} : list (N * bin) :=
  let fix go (ch : list (N * bin)) {struct ch} : list (N * bin) :=
      match ch with
      | [] => old
      | (j, b) :: ch' =>
          match old with
          | [] => match b with BNull => go ch' | _ => (j, b) :: go ch' end
          | (i, a) :: old' =>
              if (j <? i)%N then match b with BNull => go ch' | _ => (j, b) :: go ch' end
              else if (j =? i)%N then
                match b with BNull => merge_bins old' ch' | _ => (j, b) :: merge_bins old' ch' end
              else (i, a) :: merge_bins old' ch
          end
      end in
  go ch.
Definition mkDd (p : dmp) (ch : list (N * bin)) (sc cnt : Z) : dmp :=
  mkD (d_len p) (merge_bins (d_bins p) ch) sc cnt.

Definition E_ (k i : N) (v : Z) : N * N * Z := (k, i, v).
Definition H_ (k h : N) : N * N := (k, h).
Definition B_ (i : N) (b : bin) : N * bin := (i, b).

Fixpoint list_eqb {A} (eqb : A -> A -> bool) (a b : list A) : bool :=
  match a, b with
  | [], [] => true
  | x :: a', y :: b' => eqb x y && list_eqb eqb a' b'
  | _, _ => false
  end.
Fixpoint tree_eqb (a b : tree) : bool :=
  match a, b with
  | L_, L_ => true
  | T_ c l e r, T_ c' l' e' r' => Bool.eqb c c' && node_eqb e e' && tree_eqb l l' && tree_eqb r r'
  | _, _ => false
  end.
Definition bin_eqb (a b : bin) : bool :=
  match a, b with
  | BNull, BNull => true
  | BMoved, BMoved => true
  | BList l, BList l' => list_eqb node_eqb l l'
  | BTree t, BTree t' => tree_eqb (troot t) (troot t') && list_eqb node_eqb (tord t) (tord t')
  | _, _ => false
  end.
Definition st_eqb (a b : st) : bool :=
  (sc a =? sc b) && (cnt a =? cnt b) &&
  match tbl a, tbl b with
  | None, None => true
  | Some t, Some t' => list_eqb bin_eqb t t'
  | _, _ => false
  end.

Definition triple_eqb (a b : N * N * Z) : bool :=
  let '(k, i, v) := a in let '(k', i', v') := b in (k =? k')%N && (i =? i')%N && (v =? v').
Definition out_eqb (a b : outcome) : bool :=
  match a, b with
  | ONone, ONone => true
  | OVal v, OVal v' => v =? v'
  | OKV k i v, OKV k' i' v' => (k =? k')%N && (i =? i')%N && (v =? v')
  | OBool x, OBool y => Bool.eqb x y
  | OExists c n, OExists c' n' => (c =? c') && (n =? n')
  | OInserted v, OInserted v' => v =? v'
  | ONum z, ONum z' => z =? z'
  | OList l, OList l' => list_eqb triple_eqb l l'
  | _, _ => false
  end.

(* the callbacks the harness uses, by index *)
Definition remap_tbl (f k : N) (v : Z) : option Z :=
  match f with
  | 0%N => None
  | 1%N => Some (v + 1)
  | 2%N => Some (Z.of_N k * 1000 + v)
  | _ => if Z.even v then None else Some (2 * v + 1)
  end.
(* the remapping functions of the concurrent programs (harness cremap): a computed value moves its
   argument into a higher band, so that no two writes of a run produce the same value for a key *)
Definition cremap_tbl (f k : N) (v : Z) : option Z :=
  match f with
  | 0%N => None
  | 1%N => Some (v + 1000000)
  | 2%N => Some (v + 2000000)
  | _ => if Z.even v then None else Some (v + 3000000)
  end.

Definition keep_tbl (p k : N) (v : Z) : bool :=
  match p with
  | 0%N => false
  | 1%N => true
  | 2%N => N.even k
  | 3%N => Z.odd v
  | _ => negb (N.modulo k 3 =? 0)%N
  end.

Definition hash_of (tbl : list (N * N)) (k : N) : N :=
  match find (fun p => (fst p =? k)%N) tbl with Some p => snd p | None => 0%N end.

(* verdict codes: 0 ok, 1 outcome differs, 2 state differs, 3 pre-state ill-formed,
   4 post-state ill-formed *)
Definition check_step (ht : list (N * N)) (pre : dmp) (o : op) (out : outcome) (post : dmp) : N :=
  let kh := hash_of ht in
  let s := to_st pre in
  (* the pre-state is the post-state of the previous item, whose well-formedness was checked there *)
  let p := to_st post in
  if negb (wf_b kh p) then 4%N
  else
    let '(s', r) := step kh remap_tbl keep_tbl s o in
    if negb (out_eqb r out) then 1%N
    else if negb (st_eqb s' p) then 2%N else 0%N.

Definition check_new (ht : list (N * N)) (c : Z) (post : dmp) : N :=
  if negb (wf_b (hash_of ht) (to_st post)) then 4%N
  else if st_eqb (with_capacity c) (to_st post) then 0%N else 2%N.
Definition check_clone (ht : list (N * N)) (pre post : dmp) : N :=
  if negb (wf_b (hash_of ht) (to_st post)) then 4%N
  else if st_eqb (clone (hash_of ht) (to_st pre)) (to_st post) then 0%N else 2%N.
Definition check_collect (ht : list (N * N)) (hint : Z) (items : list (N * N * Z)) (post : dmp) : N :=
  if negb (wf_b (hash_of ht) (to_st post)) then 4%N
  else if st_eqb (collect (hash_of ht) hint items) (to_st post) then 0%N else 2%N.

(* a whole case: returns the 1-based index of the first failing step and its code, or (0,0) *)
Inductive item :=
| INew (c : Z) (post : dmp)
| IStep (pre : dmp) (o : op) (out : outcome) (post : dmp)
| IClone (pre post : dmp)
| ICollect (ht' : list (N * N)) (hint : Z) (items : list (N * N * Z)) (post : dmp).

Definition check_item (ht : list (N * N)) (it : item) : N :=
  match it with
  | INew c post => check_new ht c post
  | IStep pre o out post => check_step ht pre o out post
  | IClone pre post => check_clone ht pre post
  | ICollect ht' hint items post => check_collect ht' hint items post
  end.

Fixpoint check_items (ht : list (N * N)) (its : list item) (ix : N) : N * N :=
  match its with
  | [] => (0%N, 0%N)
  | it :: its' =>
      match check_item ht it with
      | 0%N => check_items ht its' (ix + 1)%N
      | c => (ix, c)
      end
  end.
Definition check_case (ht : list (N * N)) (its : list item) : N * N := check_items ht its 1%N.
