(* The control protocol of one cooperative resize (map.rs: add_count / try_presize trigger,
   help_transfer's join test, transfer's claim loop, leave / election, sweep, publication), as an
   executable state machine over the shared words size_ctl, transfer_index, next_table and one
   state per bin of the old table. Any number of threads, any schedule, any table length n and
   stride. Every arithmetic expression is the one regenerated from the source (Gen/GenArith.v).
   One step of a thread = one shared-memory operation (preceded by the local computation that
   leads to it), as in the instrumented implementation. Definitions only. *)
From Flurry Require Export Model.Arith.
Open Scope Z_scope.

Inductive binstate := BEmpty | BFull | BFwd.          (* null / a node or tree bin / Moved *)

Record locals := mkL { li : Z; lbound : Z; ladvance : bool; lfinishing : bool }.

Inductive pc :=
| Idle
| InitSwapNT                       (* won the initiating CAS: swap next_table := new table *)
| InitStoreTI                      (* store transfer_index := n *)
| InitLoadNT                       (* load next_table *)
| HelpLoadTI (sc_seen : Z)         (* help_transfer / add_count: sc passed the tests, load ti *)
| HelpCas (sc_seen : Z)            (* try to join: CAS sc -> sc + 1 *)
| Loop (l : locals)                (* loop head of transfer *)
| ClaimCas (l : locals) (next_index : Z)
| LeaveCas (l : locals) (sc_seen : Z)
| AtBin (l : locals) (seen : binstate)
| Pub1 (l : locals)                (* next_table := null *)
| Pub2 (l : locals)                (* table := next *)
| Pub3 (l : locals)                (* size_ctl := threshold *)
| Gone.                            (* returned from transfer *)

Inductive event :=
| EMigrated (i : nat)
| EPublished
| EEntered (t : nat) (initiator : bool)
| ELeft (t : nat) (finisher : bool).

Inductive phase := PLoad | PAct.
Inductive tpc := T (ph : phase) (p : pc).

Section Head.
Variable n : Z.
Definition next_n : Z := transfer_new_len n.

(* local part of the loop head: the `while advance` loop up to its first shared operation, then
   the finished test. Returns the next pc (whose step performs the shared operation). *)
Definition after_claim (l : locals) : pc :=
  if transfer_done (li l) n next_n then
    if lfinishing l then Pub1 l else LeaveCas l 0   (* LeaveCas's first half: load sc (see step) *)
  else AtBin l BEmpty.                               (* AtBin's first half: load the bin *)

(* To keep one shared operation per step, LeaveCas, AtBin and ClaimCas are entered in a "load"
   phase (PLoad) first; PAct is the phase in which the pc's own operation is performed. *)

(* ---- one step of thread t whose current pc is p (phase ph) ---- *)
Definition loop_head (l : locals) : tpc :=
  if ladvance l then
    let i' := li l - 1 in
    if (i' >=? lbound l) || lfinishing l then
      (* advance := false; fall through to the finished test *)
      let l' := mkL i' (lbound l) false (lfinishing l) in
      match after_claim l' with
      | Pub1 l'' => T PAct (Pub1 l'')
      | p => T PLoad p
      end
    else T PLoad (ClaimCas (mkL i' (lbound l) true (lfinishing l)) 0)
  else
    match after_claim l with
    | Pub1 l'' => T PAct (Pub1 l'')
    | p => T PLoad p
    end.

End Head.

Record cfg := mkC {
  c_sc : Z; c_ti : Z; c_nt : bool; c_swapped : bool;
  c_bins : list binstate; c_thr : list tpc; c_log : list event
}.

Section Run.
Variable n : Z.
Variable ncpu : Z.
Notation rsv := (rs n).
Notation nn := (transfer_new_len n).

Definition thr (c : cfg) (t : nat) : tpc := nth t (c_thr c) (T PAct Gone).
Definition upd_thr (c : cfg) (t : nat) (p : tpc) : cfg :=
  mkC (c_sc c) (c_ti c) (c_nt c) (c_swapped c) (c_bins c)
      (firstn t (c_thr c) ++ p :: skipn (S t) (c_thr c)) (c_log c).
Definition c_emit (c : cfg) (e : event) : cfg :=
  mkC (c_sc c) (c_ti c) (c_nt c) (c_swapped c) (c_bins c) (c_thr c) (e :: c_log c).
Definition c_set_sc (c : cfg) v := mkC v (c_ti c) (c_nt c) (c_swapped c) (c_bins c) (c_thr c) (c_log c).
Definition c_set_ti (c : cfg) v := mkC (c_sc c) v (c_nt c) (c_swapped c) (c_bins c) (c_thr c) (c_log c).
Definition c_set_nt (c : cfg) v := mkC (c_sc c) (c_ti c) v (c_swapped c) (c_bins c) (c_thr c) (c_log c).
Definition c_set_swapped (c : cfg) := mkC (c_sc c) (c_ti c) (c_nt c) true (c_bins c) (c_thr c) (c_log c).
Definition c_bin (c : cfg) (i : nat) : binstate := nth i (c_bins c) BFwd.
Definition c_set_bin (c : cfg) (i : nat) (b : binstate) : cfg :=
  mkC (c_sc c) (c_ti c) (c_nt c) (c_swapped c)
      (firstn i (c_bins c) ++ b :: skipn (S i) (c_bins c)) (c_thr c) (c_log c).

Definition head (l : locals) : tpc := loop_head n l.

(* what a thread does when scheduled; `trigger` says whether an Idle thread's caller
   (add_count / try_presize / a writer that met a forwarding marker) wants to resize or help *)
Definition step (c : cfg) (t : nat) : cfg :=
  match thr c t with
  (* ---- entering ---- *)
  | T _ Idle =>
      (* load size_ctl *)
      let s := c_sc c in
      if s <? 0 then
        (* a resize is running: the join tests of add_count / help_transfer (ti is read next) *)
        if add_count_break s rsv then c
        else if negb (c_nt c) then c
        else upd_thr c t (T PAct (HelpLoadTI s))
      else
        (* not resizing: initiate (the caller decided that growth is due); only once the
           previous publication is complete, which s >= 0 expresses *)
        if c_swapped c then c   (* single generation: the table is already the new one *)
        else
          (* CAS sc: s -> rs + 2 (folded with the load: see ResizeProofs, cas_sc_atomic) *)
          upd_thr (c_emit (c_set_sc c (init_sc_add_count rsv)) (EEntered t true)) t (T PAct InitSwapNT)
  | T _ (HelpLoadTI s) =>
      if c_ti c <=? 0 then upd_thr c t (T PAct Idle)
      else upd_thr c t (T PAct (HelpCas s))
  | T _ (HelpCas s) =>
      if c_sc c =? s then
        upd_thr (c_emit (c_set_sc c (add_count_join_sc s)) (EEntered t false)) t
                (head (mkL 0 0 true false))
      else upd_thr c t (T PAct Idle)
  | T _ InitSwapNT => upd_thr (c_set_nt c true) t (T PAct InitStoreTI)
  | T _ InitStoreTI => upd_thr (c_set_ti c n) t (T PAct InitLoadNT)
  | T _ InitLoadNT => upd_thr c t (head (mkL 0 0 true false))
  (* ---- claiming a stride ---- *)
  | T PLoad (ClaimCas l _) =>
      let next_index := c_ti c in
      if next_index <=? 0 then
        upd_thr c t (head (mkL (-1) (lbound l) false (lfinishing l)))
      else upd_thr c t (T PAct (ClaimCas l next_index))
  | T PAct (ClaimCas l next_index) =>
      let next_bound := transfer_next_bound next_index (transfer_stride (transfer_stride0 n ncpu)) in
      if c_ti c =? next_index then
        upd_thr (c_set_ti c next_bound) t
                (head (mkL (transfer_claim_i next_index next_bound)
                           (transfer_claim_bound next_index next_bound) false (lfinishing l)))
      else upd_thr c t (head l)      (* CAS failed: next iteration of `while advance` *)
  (* ---- leaving / election ---- *)
  | T PLoad (LeaveCas l _) => upd_thr c t (T PAct (LeaveCas l (c_sc c)))
  | T PAct (LeaveCas l s) =>
      if c_sc c =? s then
        let c' := c_set_sc c (transfer_leave_sc s) in
        if transfer_not_last s n then upd_thr (c_emit c' (ELeft t false)) t (T PAct Gone)
        else upd_thr c' t (head (mkL (transfer_sweep_start n) (lbound l) true true))
      else upd_thr c t (head l)
  (* ---- one bin ---- *)
  | T PLoad (AtBin l _) => upd_thr c t (T PAct (AtBin l (c_bin c (Z.to_nat (li l)))))
  | T PAct (AtBin l seen) =>
      let i := Z.to_nat (li l) in
      match seen with
      | BFwd => upd_thr c t (head (mkL (li l) (lbound l) true (lfinishing l)))
      | BEmpty =>
          (* CAS null -> Moved *)
          match c_bin c i with
          | BEmpty => upd_thr (c_emit (c_set_bin c i BFwd) (EMigrated i)) t
                              (head (mkL (li l) (lbound l) true (lfinishing l)))
          | _ => upd_thr c t (head (mkL (li l) (lbound l) false (lfinishing l)))
          end
      | BFull =>
          (* lock the head, re-validate; the split and the three stores happen under the lock *)
          match c_bin c i with
          | BFull => upd_thr (c_emit (c_set_bin c i BFwd) (EMigrated i)) t
                             (head (mkL (li l) (lbound l) true (lfinishing l)))
          | _ => upd_thr c t (head l)      (* head changed: `continue` without touching advance *)
          end
      end
  (* ---- publication ---- *)
  | T _ (Pub1 l) => upd_thr (c_set_nt c false) t (T PAct (Pub2 l))
  | T _ (Pub2 l) => upd_thr (c_set_swapped c) t (T PAct (Pub3 l))
  | T _ (Pub3 l) =>
      upd_thr (c_emit (c_emit (c_set_sc c (transfer_next_sc n)) EPublished) (ELeft t true)) t (T PAct Gone)
  | T _ Gone => c
  | T _ (Loop l) => upd_thr c t (head l)
  end.

(* the environment: other operations of the map fill or empty a bin that is not forwarded
   (inserting into an empty bin by CAS, removing the last node under the bin lock) *)
Definition env_flip (c : cfg) (i : nat) : cfg :=
  match c_bin c i with
  | BEmpty => c_set_bin c i BFull
  | BFull => c_set_bin c i BEmpty
  | BFwd => c
  end.

Inductive action := AThread (t : nat) | AEnv (i : nat).
Definition act (c : cfg) (a : action) : cfg :=
  match a with AThread t => step c t | AEnv i => env_flip c i end.
Definition run (c : cfg) (sched : list action) : cfg := fold_left act sched c.

(* initial configuration: not resizing, threshold sc0 >= 0, k idle threads, arbitrary bins *)
Definition init (sc0 : Z) (bins : list binstate) (k : nat) : cfg :=
  mkC sc0 0 false false bins (repeat (T PAct Idle) k) [].

(* ---- observations ---- *)
Definition inside (p : tpc) : bool :=
  match p with T _ Idle | T _ Gone | T _ (HelpLoadTI _) | T _ (HelpCas _) => false | _ => true end.
Definition count_ev (f : event -> bool) (c : cfg) : nat := length (filter f (c_log c)).
Definition is_migrated (i : nat) (e : event) : bool :=
  match e with EMigrated j => Nat.eqb i j | _ => false end.
Definition is_published (e : event) : bool := match e with EPublished => true | _ => false end.
Definition all_fwd (c : cfg) : bool := forallb (fun b => match b with BFwd => true | _ => false end) (c_bins c).
Definition nobody_inside (c : cfg) : bool := forallb (fun p => negb (inside p)) (c_thr c).

End Run.
