(* The sequential map: one thread, every public operation, mirroring map.rs path by path.
   Definitions only.  The arithmetic comes from Gen/GenArith.v (regenerated from the source). *)
From Flurry Require Export Model.Arith Model.RB.
Open Scope Z_scope.

Record st := mkSt { tbl : option (list bin); sc : Z; cnt : Z }.

Inductive outcome :=
| ONone                                  (* None / unit *)
| OVal (v : Z)                           (* Some(&value) *)
| OKV (k i : N) (v : Z)                  (* Some((&key, &value)) *)
| OBool (b : bool)
| OExists (cur : Z) (not_inserted : Z)   (* try_insert refused *)
| OInserted (v : Z)                      (* try_insert succeeded *)
| ONum (z : Z)
| OList (l : list (N * N * Z))           (* iteration-shaped output, in iteration order *)
| OStuck.                                (* the model met a state it does not cover (e.g. BMoved) *)

Section WithHash.
Variable khash : N -> N.
(* remapping functions and predicates, by index *)
Variable remap : N -> N -> Z -> option Z.
Variable keep : N -> N -> Z -> bool.

Definition tlen (t : list bin) : Z := Z.of_nat (length t).
Definition bini (t : list bin) (h : N) : nat := N.to_nat (N.land h (Z.to_N (tlen t) - 1)).
Definition set_bin (t : list bin) (i : nat) (b : bin) : list bin :=
  firstn i t ++ b :: skipn (S i) t.
Definition get_bin (t : list bin) (i : nat) : bin := nth i t BNull.
Definition empty_table (n : Z) : list bin := repeat BNull (Z.to_nat n).

(* ---------- transfer of a whole table (single thread: always runs to completion) ---------- *)
Definition split_bin (n : N) (b : bin) : bin * bin :=
  match b with
  | BNull => (BNull, BNull)
  | BMoved => (BMoved, BMoved)
  | BList l => let '(lo, hi) := lb_split n l in (of_list lo, of_list hi)
  | BTree t =>
      let '(lo, hi) := ord_split n (tord t) in
      let lc := Z.of_nat (length lo) in
      let hc := Z.of_nat (length hi) in
      let lob := if split_untreeify_low lc then of_list lo
                 else if negb (hc =? 0) then BTree (tb_new lo) else b in
      let hib := if split_untreeify_high hc then of_list hi
                 else if negb (lc =? 0) then BTree (tb_new hi) else b in
      (lob, hib)
  end.

Definition transfer_all (t : list bin) : list bin :=
  let n := Z.to_N (tlen t) in
  let parts := map (split_bin n) t in
  map fst parts ++ map snd parts.

(* one resize step: table n -> 2n, threshold as transfer stores it *)
Definition resize_once (s : st) : st :=
  match tbl s with
  | Some t => mkSt (Some (transfer_all t)) (next_threshold (tlen t)) (cnt s)
  | None => s
  end.

(* ---------- add_count ---------- *)
Fixpoint grow_loop (fuel : nat) (s : st) (count : Z) : st :=
  match fuel with
  | O => s
  | S fuel' =>
      if add_count_below count (sc s) then s
      else match tbl s with
           | None => s
           | Some t =>
               if add_count_full (tlen t) then s
               else let s' := resize_once s in grow_loop fuel' s' (cnt s')
           end
  end.

Definition add_count (s : st) (delta : Z) (hint : bool) : st :=
  let s1 := mkSt (tbl s) (sc s) (add_count_stored (cnt s) delta) in
  if hint then grow_loop 40 s1 (add_count_local (cnt s) delta) else s1.

(* ---------- table creation ---------- *)
Definition init_table (s : st) : st :=
  match tbl s with
  | Some (_ :: _) => s
  | _ => let n := init_table_n (sc s) in mkSt (Some (empty_table n)) (init_table_sc n) (cnt s)
  end.

Fixpoint presize_loop (fuel : nat) (c : Z) (s : st) : st :=
  match fuel with
  | O => s
  | S fuel' =>
      if try_presize_busy (sc s) then s
      else match tbl s with
           | None | Some [] =>
               let n := try_presize_new_capacity c (sc s) in
               presize_loop fuel' c (mkSt (Some (empty_table n)) (try_presize_threshold n) (cnt s))
           | Some t =>
               if try_presize_stop c (sc s) (tlen t) then s
               else presize_loop fuel' c (resize_once s)
           end
  end.
Definition try_presize (s : st) (size : Z) : st :=
  presize_loop 40 (capacity_round_try_presize size) s.

Definition with_capacity (c : Z) : st :=
  if c =? 0 then mkSt None 0 0
  else let n := capacity_round_presize c in mkSt (Some (empty_table n)) (presize_threshold n) 0.

Definition slen (s : st) : Z := Z.max 0 (cnt s).
Definition reserve (s : st) (additional : Z) : st := try_presize s (slen s + additional).

(* ---------- treeify_bin ---------- *)
Definition treeify_bin (s : st) (i : nat) : st :=
  match tbl s with
  | None => s
  | Some t =>
      if treeify_resizes (tlen t) then try_presize s (treeify_presize_arg (tlen t))
      else match get_bin t i with
           | BList l => mkSt (Some (set_bin t i (BTree (tb_new l)))) (sc s) (cnt s)
           | _ => s
           end
  end.

(* ---------- put ---------- *)
Definition put (s0 : st) (k inst : N) (v : Z) (no_repl : bool) : st * outcome :=
  let h := khash k in
  let s := init_table s0 in
  match tbl s with
  | None => (s, OStuck)
  | Some t =>
      let i := bini t h in
      match get_bin t i with
      | BNull =>
          let s' := mkSt (Some (set_bin t i (BList [N_ h k inst v]))) (sc s) (cnt s) in
          (add_count s' 1 true, if no_repl then OInserted v else ONone)
      | BMoved => (s, OStuck)
      | BList l =>
          match lb_find l h k with
          | Some n =>
              if no_repl then (s, OExists (nv n) v)
              else
                let s' := mkSt (Some (set_bin t i (BList (lb_set l h k v)))) (sc s) (cnt s) in
                let bc := match lb_pos l h k 1 with Some c => c | None => 0 end in
                let s'' := if put_treeify bc then treeify_bin s' i else s' in
                (s'', OVal (nv n))
          | None =>
              let s' := mkSt (Some (set_bin t i (BList (l ++ [N_ h k inst v])))) (sc s) (cnt s) in
              let bc := Z.of_nat (length l) in
              let s'' := if put_treeify bc then treeify_bin s' i else s' in
              (add_count s'' 1 true, if no_repl then OInserted v else ONone)
          end
      | BTree b =>
          match t_find (troot b) h k with
          | Some n =>
              if no_repl then (s, OExists (nv n) v)
              else (mkSt (Some (set_bin t i (BTree (tb_set b h k v)))) (sc s) (cnt s), OVal (nv n))
          | None =>
              let s' := mkSt (Some (set_bin t i (BTree (tb_put b (N_ h k inst v))))) (sc s) (cnt s) in
              (add_count s' 1 true, if no_repl then OInserted v else ONone)
          end
      end
  end.

(* ---------- lookups ---------- *)
Definition bin_find (b : bin) (h k : N) : option node :=
  match b with
  | BList l => lb_find l h k
  | BTree t => t_find (troot t) h k
  | _ => None
  end.

Definition get_node (s : st) (k : N) : option node :=
  match tbl s with
  | None | Some [] => None
  | Some t => bin_find (get_bin t (bini t (khash k))) (khash k) k
  end.

(* ---------- replace_node with new_value = None (remove) ---------- *)
Definition bin_remove (b : bin) (h k : N) : bin :=
  match b with
  | BList l => of_list (lb_remove l h k)
  | BTree t =>
      let '(t', untreeify) := tb_remove t h k in
      if untreeify then of_list (tord t') else BTree t'
  | _ => b
  end.

Definition remove (s : st) (k : N) : st * option node :=
  match tbl s with
  | None | Some [] => (s, None)
  | Some t =>
      let h := khash k in
      let i := bini t h in
      match bin_find (get_bin t i) h k with
      | None => (s, None)
      | Some n =>
          let s' := mkSt (Some (set_bin t i (bin_remove (get_bin t i) h k))) (sc s) (cnt s) in
          (add_count s' (-1) false, Some n)
      end
  end.

(* ---------- compute_if_present ---------- *)
Definition bin_set (b : bin) (h k : N) (v : Z) : bin :=
  match b with
  | BList l => BList (lb_set l h k v)
  | BTree t => BTree (tb_set t h k v)
  | _ => b
  end.

Definition compute (s0 : st) (k : N) (f : N) : st * outcome :=
  let h := khash k in
  let s := init_table s0 in
  match tbl s with
  | None => (s, OStuck)
  | Some t =>
      let i := bini t h in
      let b := get_bin t i in
      match b with
      | BMoved => (s, OStuck)
      | _ =>
        match bin_find b h k with
        | None => (s, ONone)
        | Some n =>
            match remap f k (nv n) with
            | Some v' => (mkSt (Some (set_bin t i (bin_set b h k v'))) (sc s) (cnt s), OVal v')
            | None =>
                let bc := match b with
                          | BList l => match lb_pos l h k 1 with Some c => c | None => 0 end
                          | _ => 2
                          end in
                let s' := mkSt (Some (set_bin t i (bin_remove b h k))) (sc s) (cnt s) in
                (add_count s' (-1) true, ONone)
            end
        end
      end
  end.

(* ---------- iteration over a quiescent table ---------- *)
Definition bin_nodes (b : bin) : list node :=
  match b with BList l => l | BTree t => tord t | _ => [] end.
Definition nodes (s : st) : list node :=
  match tbl s with None => [] | Some t => flat_map bin_nodes t end.
Definition entry (n : node) : N * N * Z := (nk n, ni n, nv n).

(* ---------- clear ---------- *)
Definition clear (s : st) : st :=
  match tbl s with
  | None => s
  | Some t =>
      let delta := - Z.of_nat (length (nodes s)) in
      let s' := mkSt (Some (map (fun b => match b with BMoved => BMoved | _ => BNull end) t)) (sc s) (cnt s) in
      if delta =? 0 then s' else add_count s' delta false
  end.

(* ---------- retain / retain_force: a removal per rejected entry, in iteration order ---------- *)
Definition retain (s : st) (p : N) : st :=
  fold_left (fun acc n => if keep p (nk n) (nv n) then acc else fst (remove acc (nk n))) (nodes s) s.

(* ---------- extend / collect / clone ---------- *)
Definition put_all (s : st) (items : list (N * N * Z)) : st :=
  fold_left (fun acc '(k, i, v) => fst (put acc k i v false)) items s.

Definition extend (s : st) (hint : Z) (items : list (N * N * Z)) : st :=
  let r := if slen s =? 0 then hint else (hint + 1) / 2 in
  put_all (reserve s r) items.

(* from_iter: hint is the lower size bound reported after the first item was taken *)
Definition collect (hint : Z) (items : list (N * N * Z)) : st :=
  match items with
  | [] => mkSt None 0 0
  | _ => put_all (with_capacity (Z.min (hint + 1) (2 ^ 64 - 1))) items
  end.

Definition clone (s : st) : st :=
  put_all (with_capacity (slen s)) (map entry (nodes s)).

(* ---------- operations ---------- *)
Inductive op :=
| Insert (k i : N) (v : Z)
| TryInsert (k i : N) (v : Z)
| Get (k : N)
| GetKeyValue (k : N)
| ContainsKey (k : N)
| Remove (k : N)
| RemoveEntry (k : N)
| Compute (k f : N)
| Retain (p : N)
| RetainForce (p : N)
| Clear
| Reserve (n : Z)
| Extend (hint : Z) (items : list (N * N * Z))
| Len
| IsEmpty
| Iter.

Definition step (s : st) (o : op) : st * outcome :=
  match o with
  | Insert k i v => put s k i v false
  | TryInsert k i v => put s k i v true
  | Get k => (s, match get_node s k with Some n => OVal (nv n) | None => ONone end)
  | GetKeyValue k => (s, match get_node s k with Some n => OKV (nk n) (ni n) (nv n) | None => ONone end)
  | ContainsKey k => (s, OBool (match get_node s k with Some _ => true | None => false end))
  | Remove k => let '(s', r) := remove s k in (s', match r with Some n => OVal (nv n) | None => ONone end)
  | RemoveEntry k => let '(s', r) := remove s k in
                     (s', match r with Some n => OKV (nk n) (ni n) (nv n) | None => ONone end)
  | Compute k f => compute s k f
  | Retain p => (retain s p, ONone)
  | RetainForce p => (retain s p, ONone)
  | Clear => (clear s, ONone)
  | Reserve n => (reserve s n, ONone)
  | Extend hint items => (extend s hint items, ONone)
  | Len => (s, ONum (slen s))
  | IsEmpty => (s, OBool (slen s =? 0))
  | Iter => (s, OList (map entry (nodes s)))
  end.

Definition run (s : st) (ops : list op) : st * list outcome :=
  fold_left (fun '(s, outs) o => let '(s', r) := step s o in (s', outs ++ [r])) ops (s, []).

End WithHash.
