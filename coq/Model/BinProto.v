(* Per-key operations on list bins under arbitrary interleavings (stage S1 of DESIGN.md: one
   table of fixed length, no resize, no tree bins).  A step-by-step rendering of the list-bin
   paths of map.rs: get_node/Table::find (lock-free), put (CAS into an empty bin, else lock the
   head node, re-validate, walk, swap the value or append), replace_node with new_value = None
   (lock, re-validate, walk with a predecessor, unlink), compute_if_present (lock, re-validate,
   walk, callback, swap or unlink).  One step of a thread = one shared-memory operation, as in
   the instrumented implementation (hooks at every Atomic load/store/swap/CAS and lock
   acquisition).  Nodes are never reclaimed while an operation runs (every operation holds a
   guard), so addresses are never reused.  Definitions only. *)
From Flurry Require Export Model.Lin.
Open Scope Z_scope.

(* ---------- shared memory ---------- *)
Record cell := mkCell { ckey : N; cval : Z; cnext : option nat }.

Record shared := mkSh {
  heap : list cell;                 (* address = index; cells are appended, never removed *)
  bins : list (option nat);         (* head pointer of every bin *)
  locks : list (option nat);        (* per address: the thread holding that node's mutex *)
}.

Definition cell_at (s : shared) (a : nat) : cell := nth a (heap s) (mkCell 0 0 None).
Definition bin_at (s : shared) (i : nat) : option nat := nth i (bins s) None.
Definition lock_at (s : shared) (a : nat) : option nat := nth a (locks s) None.
Definition upd_list {A} (l : list A) (i : nat) (x : A) : list A := firstn i l ++ x :: skipn (S i) l.
Definition set_cell (s : shared) (a : nat) (c : cell) : shared :=
  mkSh (upd_list (heap s) a c) (bins s) (locks s).
Definition set_bin (s : shared) (i : nat) (h : option nat) : shared :=
  mkSh (heap s) (upd_list (bins s) i h) (locks s).
Definition set_lock (s : shared) (a : nat) (o : option nat) : shared :=
  mkSh (heap s) (bins s) (upd_list (locks s) a o).
(* allocate a fresh node; returns its address *)
Definition alloc (s : shared) (k : N) (v : Z) : shared * nat :=
  (mkSh (heap s ++ [mkCell k v None]) (bins s) (locks s ++ [None]), length (heap s)).

(* ---------- operations and results ---------- *)
Inductive opn :=
| OGet (k : N)
| OInsert (k : N) (v : Z)
| OTryInsert (k : N) (v : Z)
| ORemove (k : N)
| OCondRemove (k : N) (obs : Z)                       (* retain's removal: remove k iff its value is still obs *)
| OCompute (k : N) (f : Z -> option Z).

Inductive res :=
| RNone
| RVal (v : Z)
| RInserted
| RExists (cur : Z)
| RComputed (seen ret : option Z).

Definition op_key (o : opn) : N :=
  match o with OGet k | OInsert k _ | OTryInsert k _ | ORemove k | OCondRemove k _ | OCompute k _ => k end.

(* ---------- program counters ---------- *)
Inductive pc :=
| PStart (o : opn)                                   (* load the bin *)
(* get *)
| GWalk (k : N) (p : nat)                            (* at node p: compare key (local), then load value or next *)
(* put (no_repl = true for try_insert) *)
| PutCas (k : N) (v : Z) (no_repl : bool)            (* bin was empty: CAS null -> fresh node *)
| PutFast (k : N) (v : Z) (h : nat)                  (* try_insert fast path: head matches, load its value *)
| PutLock (k : N) (v : Z) (no_repl : bool) (h : nat) (* acquire the head's mutex *)
| PutReval (k : N) (v : Z) (no_repl : bool) (h : nat)(* re-load the bin *)
| PutWalk (k : N) (v : Z) (no_repl : bool) (h p : nat) (* at node p under the lock *)
| PutUnlock (h : nat) (r : res) (retry : option opn) (* release; then return r, or start over *)
(* remove *)
(* obs = Some v: conditional removal (replace_node with an observed value), None: unconditional *)
| RmLock (k : N) (obs : option Z) (h : nat)
| RmReval (k : N) (obs : option Z) (h : nat)
| RmWalk (k : N) (obs : option Z) (h : nat) (pred : option nat) (e : nat)   (* load e.next *)
| RmFound (k : N) (obs : option Z) (h : nat) (pred : option nat) (e : nat) (nxt : option nat)
                                                     (* load e.value, compare with obs *)
| RmUnlink (k : N) (h : nat) (pred : option nat) (e : nat) (nxt : option nat) (ev : Z)
(* compute_if_present *)
| CpLock (k : N) (f : Z -> option Z) (h : nat)
| CpReval (k : N) (f : Z -> option Z) (h : nat)
| CpWalk (k : N) (f : Z -> option Z) (h : nat) (pred : option nat) (p : nat)   (* load p.next *)
| CpFound (k : N) (f : Z -> option Z) (h : nat) (pred : option nat) (p : nat) (nxt : option nat)
                                                     (* load p.value, run the callback *)
| CpApply (k : N) (h : nat) (pred : option nat) (p : nat) (nxt : option nat) (seen : Z) (nv : option Z)
                                                     (* swap the value in, or unlink *)
| PDone.

(* a thread: the operations still to run, the current pc, and bookkeeping for the history *)
Record thread := mkT { todo : list opn; cur : option opn; at_ : pc; inv_at : N }.

(* the history: completed calls with invocation / response instants *)
Record hcall := mkH { h_tid : nat; h_op : opn; h_res : res; h_inv : N; h_resp : N }.

Record cfg := mkCfg { sh : shared; thr : list thread; now : N; hist : list hcall }.

Section Run.
Variable khash : N -> N.
Variable nbins : nat.
Definition bini (k : N) : nat := N.to_nat (N.modulo (khash k) (N.of_nat nbins)).

Definition get_thr (c : cfg) (t : nat) : thread := nth t (thr c) (mkT [] None PDone 0).
Definition set_thr (c : cfg) (t : nat) (th : thread) : cfg :=
  mkCfg (sh c) (upd_list (thr c) t th) (now c) (hist c).
Definition with_sh (c : cfg) (s : shared) : cfg := mkCfg s (thr c) (now c) (hist c).

(* finish the current operation of thread t with result r *)
Definition finish (c : cfg) (t : nat) (r : res) : cfg :=
  let th := get_thr c t in
  match cur th with
  | Some o =>
      mkCfg (sh c) (upd_list (thr c) t (mkT (todo th) None PDone (inv_at th))) (now c)
            (mkH t o r (inv_at th) (now c) :: hist c)
  | None => c
  end.
Definition goto (c : cfg) (t : nat) (p : pc) : cfg :=
  let th := get_thr c t in set_thr c t (mkT (todo th) (cur th) p (inv_at th)).

(* a thread blocked on a mutex does not move *)
Definition enabled (c : cfg) (t : nat) : bool :=
  let th := get_thr c t in
  match at_ th with
  | PutLock _ _ _ h | RmLock _ _ h | CpLock _ _ h =>
      match lock_at (sh c) h with None => true | Some _ => false end
  | PDone => match todo th with [] => false | _ => true end
  | _ => true
  end.

(* the removal a pc of the Rm family belongs to *)
Definition rm_op (k : N) (obs : option Z) : opn :=
  match obs with Some v => OCondRemove k v | None => ORemove k end.

Definition step (c0 : cfg) (t : nat) : cfg :=
  let c := mkCfg (sh c0) (thr c0) (now c0 + 1)%N (hist c0) in
  let th := get_thr c t in
  let s := sh c in
  match at_ th with
  | PDone =>
      (* invoke the next operation (no shared access) *)
      match todo th with
      | [] => c0
      | o :: rest => set_thr c t (mkT rest (Some o) (PStart o) (now c))
      end
  | PStart o =>
      let k := op_key o in
      match bin_at s (bini k), o with
      | None, OGet _ => finish c t RNone
      | None, ORemove _ => finish c t RNone
      | None, OCondRemove _ _ => finish c t RNone
      | None, OCompute _ _ => finish c t (RComputed None None)
      | None, OInsert _ v => goto c t (PutCas k v false)
      | None, OTryInsert _ v => goto c t (PutCas k v true)
      | Some h, OGet _ => goto c t (GWalk k h)
      | Some h, OInsert _ v => goto c t (PutLock k v false h)
      | Some h, OTryInsert _ v =>
          if (ckey (cell_at s h) =? k)%N then goto c t (PutFast k v h) else goto c t (PutLock k v true h)
      | Some h, ORemove _ => goto c t (RmLock k None h)
      | Some h, OCondRemove _ obs => goto c t (RmLock k (Some obs) h)
      | Some h, OCompute _ f => goto c t (CpLock k f h)
      end
  (* ---- get ---- *)
  | GWalk k p =>
      if (ckey (cell_at s p) =? k)%N then finish c t (RVal (cval (cell_at s p)))     (* load value *)
      else match cnext (cell_at s p) with                                            (* load next *)
           | Some q => goto c t (GWalk k q)
           | None => finish c t RNone
           end
  (* ---- put ---- *)
  | PutCas k v no_repl =>
      match bin_at s (bini k) with
      | None => let '(s', a) := alloc s k v in
                finish (with_sh c (set_bin s' (bini k) (Some a))) t (if no_repl then RInserted else RNone)
      | Some h =>
          (* the failed CAS reports the current head; the code goes on with it (no re-load) *)
          if no_repl && (ckey (cell_at s h) =? k)%N then goto c t (PutFast k v h)
          else goto c t (PutLock k v no_repl h)
      end
  | PutFast k v h => finish c t (RExists (cval (cell_at s h)))
  | PutLock k v no_repl h =>
      match lock_at s h with
      | None => goto (with_sh c (set_lock s h (Some t))) t (PutReval k v no_repl h)
      | Some _ => c0                                   (* blocked *)
      end
  | PutReval k v no_repl h =>
      match bin_at s (bini k) with
      | Some h' => if Nat.eqb h' h then goto c t (PutWalk k v no_repl h h)
                   else goto c t (PutUnlock h RNone (Some (if no_repl then OTryInsert k v else OInsert k v)))
      | None => goto c t (PutUnlock h RNone (Some (if no_repl then OTryInsert k v else OInsert k v)))
      end
  | PutWalk k v no_repl h p =>
      let cp := cell_at s p in
      if (ckey cp =? k)%N then
        if no_repl then goto c t (PutUnlock h (RExists (cval cp)) None)              (* load value *)
        else goto (with_sh c (set_cell s p (mkCell (ckey cp) v (cnext cp)))) t
                  (PutUnlock h (RVal (cval cp)) None)                                  (* swap value *)
      else match cnext cp with                                                        (* load next *)
           | Some q => goto c t (PutWalk k v no_repl h q)
           | None =>
               (* store next := fresh node (folded with the load of null that precedes it:
                  the lock is held, nobody else writes this field) *)
               let '(s', a) := alloc s k v in
               goto (with_sh c (set_cell s' p (mkCell (ckey cp) (cval cp) (Some a)))) t
                    (PutUnlock h (if no_repl then RInserted else RNone) None)
           end
  | PutUnlock h r retry =>
      let c' := with_sh c (set_lock s h None) in
      match retry with
      | Some o => goto c' t (PStart o)
      | None => finish c' t r
      end
  (* ---- remove ---- *)
  | RmLock k obs h =>
      match lock_at s h with
      | None => goto (with_sh c (set_lock s h (Some t))) t (RmReval k obs h)
      | Some _ => c0
      end
  | RmReval k obs h =>
      match bin_at s (bini k) with
      | Some h' => if Nat.eqb h' h then goto c t (RmWalk k obs h None h)
                   else goto c t (PutUnlock h RNone (Some (rm_op k obs)))
      | None => goto c t (PutUnlock h RNone (Some (rm_op k obs)))
      end
  | RmWalk k obs h pred e =>
      let nxt := cnext (cell_at s e) in                                               (* load next *)
      if (ckey (cell_at s e) =? k)%N then goto c t (RmFound k obs h pred e nxt)
      else match nxt with
           | Some q => goto c t (RmWalk k obs h (Some e) q)
           | None => goto c t (PutUnlock h RNone None)
           end
  | RmFound k obs h pred e nxt =>                                                     (* load value *)
      let ev := cval (cell_at s e) in
      match obs with
      | Some v => if v =? ev then goto c t (RmUnlink k h pred e nxt ev)
                  else goto c t (PutUnlock h RNone None)     (* the value changed: leave it *)
      | None => goto c t (RmUnlink k h pred e nxt ev)
      end
  | RmUnlink k h pred e nxt ev =>
      let s' := match pred with
                | Some p => let cp := cell_at s p in set_cell s p (mkCell (ckey cp) (cval cp) nxt)
                | None => set_bin s (bini k) nxt
                end in
      goto (with_sh c s') t (PutUnlock h (RVal ev) None)
  (* ---- compute_if_present ---- *)
  | CpLock k f h =>
      match lock_at s h with
      | None => goto (with_sh c (set_lock s h (Some t))) t (CpReval k f h)
      | Some _ => c0
      end
  | CpReval k f h =>
      match bin_at s (bini k) with
      | Some h' => if Nat.eqb h' h then goto c t (CpWalk k f h None h)
                   else goto c t (PutUnlock h RNone (Some (OCompute k f)))
      | None => goto c t (PutUnlock h RNone (Some (OCompute k f)))
      end
  | CpWalk k f h pred p =>
      let nxt := cnext (cell_at s p) in
      if (ckey (cell_at s p) =? k)%N then goto c t (CpFound k f h pred p nxt)
      else match nxt with
           | Some q => goto c t (CpWalk k f h (Some p) q)
           | None => goto c t (PutUnlock h (RComputed None None) None)
           end
  | CpFound k f h pred p nxt =>
      let v := cval (cell_at s p) in goto c t (CpApply k h pred p nxt v (f v))
  | CpApply k h pred p nxt seen nv =>
      match nv with
      | Some v' =>
          let cp := cell_at s p in
          goto (with_sh c (set_cell s p (mkCell (ckey cp) v' (cnext cp)))) t
               (PutUnlock h (RComputed (Some seen) (Some v')) None)
      | None =>
          let s' := match pred with
                    | Some q => let cq := cell_at s q in set_cell s q (mkCell (ckey cq) (cval cq) nxt)
                    | None => set_bin s (bini k) nxt
                    end in
          goto (with_sh c s') t (PutUnlock h (RComputed (Some seen) None) None)
      end
  end.

Definition run (c : cfg) (sched : list nat) : cfg := fold_left step sched c.

(* initial configuration: empty table of nbins bins, one thread per program *)
Definition init (progs : list (list opn)) : cfg :=
  mkCfg (mkSh [] (repeat None nbins) [])
        (map (fun p => mkT p None PDone 0) progs) 0 [].

Definition all_done (c : cfg) : bool :=
  forallb (fun th => match at_ th, todo th with PDone, [] => true | _, _ => false end) (thr c).

(* ---------- the per-key history, in the vocabulary of Lin.v ---------- *)
Definition kop_of (o : opn) (r : res) : kop :=
  match o, r with
  | OGet _, RVal v => KGet (Some v)
  | OGet _, _ => KGet None
  | OInsert _ v, RVal old => KInsert v (Some old)
  | OInsert _ v, _ => KInsert v None
  | OTryInsert _ v, RExists cur => KTryInsert v (Some cur)
  | OTryInsert _ v, _ => KTryInsert v None
  | ORemove _, RVal old => KRemove (Some old)
  | ORemove _, _ => KRemove None
  | OCondRemove _ obs, _ => KCondRemove obs
  | OCompute _ f, RComputed seen ret => KCompute f seen ret
  | OCompute _ f, _ => KCompute f None None
  end.

Definition key_history (c : cfg) (k : N) : list kcall :=
  map (fun h => C_ (h_inv h) (h_resp h) (kop_of (h_op h) (h_res h)))
      (filter (fun h => (op_key (h_op h) =? k)%N) (hist c)).

(* what a lookup of k finds in the current (possibly mid-operation) shared state *)
Fixpoint walk (s : shared) (fuel : nat) (p : option nat) (k : N) : option Z :=
  match fuel, p with
  | S fuel', Some a =>
      if (ckey (cell_at s a) =? k)%N then Some (cval (cell_at s a))
      else walk s fuel' (cnext (cell_at s a)) k
  | _, _ => None
  end.
Definition lookup (c : cfg) (k : N) : option Z :=
  walk (sh c) (length (heap (sh c))) (bin_at (sh c) (bini k)) k.

End Run.
