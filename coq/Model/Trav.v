(* The traverser (iter/traverser.rs, NodeIter) over a chain of tables: table j is `nth j forest`,
   a BMoved in table j at index i means "see table j+1 at i and i + len(table j)".
   `advance` is NodeIter::next field by field (index, base_index, base_limit, base_size, the
   stack of (table, length, index) frames, prev as the not yet yielded rest of the current bin).
   Definitions only. *)
From Flurry Require Export Model.Seq.
Open Scope nat_scope.

Record frame := mkF { f_tab : nat; f_len : nat; f_idx : nat }.

Record titer := mkI {
  i_tab : option nat;        (* current table (index into the forest) *)
  i_stack : list frame;
  i_rest : list node;        (* nodes following `prev` in its bin (prev.next chain) *)
  i_index : nat;
  i_base_index : nat;
  i_base_limit : nat;
  i_base_size : nat
}.

Definition forest := list (list bin).

Definition table_of (f : forest) (j : nat) : list bin := nth j f [].
Definition tlen_of (f : forest) (j : nat) : nat := length (table_of f j).

(* NodeIter::new on table 0 of the forest *)
Definition new_iter (f : forest) : titer :=
  match f with
  | [] => mkI None [] [] 0 0 0 0
  | t :: _ => mkI (Some 0) [] [] 0 0 (length t) (length t)
  end.

(* recover_state(n): pop finished frames, or move to the high half of the top frame *)
Fixpoint recover (fuel : nat) (it : titer) (n : nat) : titer :=
  match fuel with
  | O => it
  | S fuel' =>
      match i_stack it with
      | [] =>
          let idx := i_index it + i_base_size it in
          if Nat.leb n idx
          then mkI (i_tab it) [] (i_rest it) (S (i_base_index it)) (S (i_base_index it)) (i_base_limit it) (i_base_size it)
          else mkI (i_tab it) [] (i_rest it) idx (i_base_index it) (i_base_limit it) (i_base_size it)
      | s :: rest =>
          if Nat.ltb (i_index it + f_len s) n
          then mkI (i_tab it) (i_stack it) (i_rest it) (i_index it + f_len s) (i_base_index it) (i_base_limit it) (i_base_size it)
          else recover fuel' (mkI (Some (f_tab s)) rest (i_rest it) (f_idx s) (i_base_index it) (i_base_limit it) (i_base_size it))
                       (f_len s)
      end
  end.

(* what the loop does after looking at bin i of table t (length n) *)
Definition after_bin (it : titer) (i n : nat) : titer :=
  match i_stack it with
  | _ :: _ => recover (S (length (i_stack it))) it n
  | [] =>
      let idx := i + i_base_size it in
      if Nat.leb n idx
      then mkI (i_tab it) [] (i_rest it) (S (i_base_index it)) (S (i_base_index it)) (i_base_limit it) (i_base_size it)
      else mkI (i_tab it) [] (i_rest it) idx (i_base_index it) (i_base_limit it) (i_base_size it)
  end.

Definition bin_list (b : bin) : list node :=
  match b with BList l => l | BTree t => tord t | _ => [] end.

(* one call of next(): the yielded node (if any) and the new iterator state *)
Fixpoint advance (fuel : nat) (f : forest) (it : titer) : option node * titer :=
  match i_rest it with
  | x :: rest =>
      (Some x, mkI (i_tab it) (i_stack it) rest (i_index it) (i_base_index it) (i_base_limit it) (i_base_size it))
  | [] =>
      match fuel with
      | O => (None, it)
      | S fuel' =>
          match i_tab it with
          | None => (None, it)
          | Some t =>
              let n := tlen_of f t in
              if Nat.leb (i_base_limit it) (i_base_index it) || Nat.leb n (i_index it) then (None, it)
              else
                let i := i_index it in
                match nth i (table_of f t) BNull with
                | BMoved =>
                    (* descend: table := next; push (t, n, i) *)
                    advance fuel' f (mkI (Some (S t)) (mkF t n i :: i_stack it) [] i
                                         (i_base_index it) (i_base_limit it) (i_base_size it))
                | b =>
                    let it' := after_bin it i n in
                    match bin_list b with
                    | x :: rest =>
                        (Some x, mkI (i_tab it') (i_stack it') rest (i_index it') (i_base_index it')
                                     (i_base_limit it') (i_base_size it'))
                    | [] => advance fuel' f it'
                    end
                end
          end
      end
  end.

(* drain the iterator *)
Fixpoint drain (calls fuel : nat) (f : forest) (it : titer) : list node :=
  match calls with
  | O => []
  | S calls' =>
      match advance fuel f it with
      | (Some x, it') => x :: drain calls' fuel f it'
      | (None, _) => []
      end
  end.

Definition total_bins (f : forest) : nat := fold_right (fun t acc => length t + acc) 0 f.
Definition total_nodes (f : forest) : nat :=
  fold_right (fun t acc => length (flat_map bin_list t) + acc) 0 f.
Definition trav_fuel (f : forest) : nat := S (2 * total_bins f + length f).
Definition iterate (f : forest) : list node :=
  drain (S (total_nodes f)) (trav_fuel f) f (new_iter f).

(* ---------- what a well-formed (possibly mid-resize) forest is, and its contents ---------- *)
(* the entries an iteration must yield: the nodes of the bins reachable from table 0 through
   forwarding markers, each reachable bin once *)
Fixpoint reach_bin (depth : nat) (f : forest) (j i : nat) : list node :=
  match depth with
  | O => []
  | S d =>
      match nth i (table_of f j) BNull with
      | BMoved => reach_bin d f (S j) i ++ reach_bin d f (S j) (i + tlen_of f j)
      | b => bin_list b
      end
  end.
Definition contents (f : forest) : list node :=
  flat_map (fun i => reach_bin (S (length f)) f 0 i) (seq 0 (tlen_of f 0)).

(* table j+1 is twice as long as table j; only the last table has no forwarding markers *)
Fixpoint wf_forest (f : forest) : bool :=
  match f with
  | [] => true
  | [t] => forallb (fun b => match b with BMoved => false | _ => true end) t
  | t :: ((t' :: _) as rest) => Nat.eqb (length t') (2 * length t) && Nat.ltb 0 (length t) && wf_forest rest
  end.
