(* Step-by-step conformance of Model/TreeLock.v with the implementation (as Model/BinConf.v for
   the list-bin protocol).  A scheduled run of the instrumented crate on one tree bin - one writer
   thread (inserts / removals that restructure the tree), reader threads (lookups) - records for
   every scheduler step the thread and the source site; the harness keeps the steps that belong
   to the lock protocol and names them by (function, cell, access kind) using the regenerated
   tables: lock_root's CAS, contended_lock's load / the two CASes / the two waiter swaps / park,
   unlock_root's store, and in TreeBin::find the lock_state load, the read-lock CAS, the
   fetch_add(-READER) and the waiter load.  Everything else is a stutter.
   `tl_conform` replays the sequence on the model: each access must be the one the model's thread
   performs next.  The writer is model thread 0; every lookup of a reader thread is its own model
   thread.  Steps without a shared access of the protocol (entering lock_root, restructuring,
   searching the tree, the unpark that follows the waiter load) are taken as soon as they are
   enabled.  Definitions only. *)
From Flurry Require Export Model.TreeLock.
Open Scope Z_scope.

Inductive tacc :=
| TWFirstCas | TWLoad | TWCasWriter | TWCasWaiter | TWClearWaiter | TWSetWaiter | TWPark | TWUnlock
| TRLoad | TRCas | TRExit | TRLoadWaiter.

Definition tacc_eqb (a b : tacc) : bool :=
  match a, b with
  | TWFirstCas, TWFirstCas | TWLoad, TWLoad | TWCasWriter, TWCasWriter | TWCasWaiter, TWCasWaiter
  | TWClearWaiter, TWClearWaiter | TWSetWaiter, TWSetWaiter | TWPark, TWPark | TWUnlock, TWUnlock
  | TRLoad, TRLoad | TRCas, TRCas | TRExit, TRExit | TRLoadWaiter, TRLoadWaiter => true
  | _, _ => false
  end.

(* the protocol access thread t performs next; None: its next step has none *)
Definition t_expected (c : cfg) (t : nat) : option tacc :=
  match get_thr c t with
  | W (WFirstCas _) => Some TWFirstCas
  | W (WLoad _ _) => Some TWLoad
  | W (WCasWriter _ _ _) => Some TWCasWriter
  | W (WCasWaiter _ _ _) => Some TWCasWaiter
  | W (WClearWaiter _) => Some TWClearWaiter
  | W (WSetWaiter _) => Some TWSetWaiter
  | W (WPark _) => Some TWPark
  | W (WUnlock _) => Some TWUnlock
  | R (RLoad _) => Some TRLoad
  | R (RCas _ _) => Some TRCas
  | R RExit => Some TRExit
  | R RLoadWaiter => Some TRLoadWaiter
  | W (WIdle _) | W (WHeld _) | W WDone | R RInside | R (RUnpark _) | R RDone => None
  end.

Definition t_local (c : cfg) (t : nat) : bool :=
  match get_thr c t with
  | W (WIdle _) | W (WHeld _) | R RInside | R (RUnpark _) => true
  | _ => false
  end.
Definition t_settle1 (c : cfg) (t : nat) : cfg := if t_local c t then step c t else c.
Definition t_settle (c : cfg) (t : nat) : cfg := t_settle1 (t_settle1 (t_settle1 c t) t) t.

Inductive tverdict :=
| TOk
| TStep (i : N) (t : nat) (got : tacc) (want : option tacc)
| TBlocked (i : N) (t : nat)          (* the code woke from park() where the model holds no token *)
| TFinal (ls_left : Z).                (* lock_state / waiter / writer not back to rest *)

Fixpoint tl_go (i : N) (tr : list (nat * tacc)) (c : cfg) : cfg * tverdict :=
  match tr with
  | [] => (c, TOk)
  | (t, a) :: tr' =>
      let c1 := t_settle c t in
      match t_expected c1 t with
      | Some e =>
          if negb (tacc_eqb a e) then (c1, TStep i t a (Some e))
          else if negb (enabled c1 t) then (c1, TBlocked i t)
          else tl_go (i + 1)%N tr' (t_settle (step c1 t) t)
      | None => (c1, TStep i t a None)
      end
  end.

Definition tl_conform (rounds : nat) (readers : list nat) (tr : list (nat * tacc)) : tverdict :=
  let '(c, v) := tl_go 0%N tr (init rounds readers) in
  match v with
  | TOk =>
      let c' := t_settle c 0 in
      if (ls c' =? 0) && match waiter c' with None => true | Some _ => false end &&
         match get_thr c' 0 with W WDone => true | _ => false end
      then TOk else TFinal (ls c')
  | _ => v
  end.
