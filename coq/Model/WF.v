(* Boolean well-formedness of a quiescent map state and of tree bins. Definitions only. *)
From Flurry Require Export Model.Seq.
Open Scope Z_scope.

(* ---------- red-black invariants ---------- *)
(* strict ordering by (hash, key) with optional bounds *)
Definition lt_node (a b : node) : bool :=
  match N.compare (nh a) (nh b) with
  | Lt => true
  | Eq => (nk a <? nk b)%N
  | Gt => false
  end.
Fixpoint ordered (t : tree) (lo hi : option node) : bool :=
  match t with
  | L_ => true
  | T_ _ l e r =>
      match lo with Some a => lt_node a e | None => true end &&
      match hi with Some b => lt_node e b | None => true end &&
      ordered l lo (Some e) && ordered r (Some e) hi
  end.
(* black height, None if unbalanced *)
Fixpoint bheight (t : tree) : option nat :=
  match t with
  | L_ => Some O
  | T_ c l _ r =>
      match bheight l, bheight r with
      | Some a, Some b => if Nat.eqb a b then Some (if c then a else S a) else None
      | _, _ => None
      end
  end.
Fixpoint no_red_red (t : tree) : bool :=
  match t with
  | L_ => true
  | T_ c l _ r => (negb c || (negb (is_red l) && negb (is_red r))) && no_red_red l && no_red_red r
  end.
Definition rb_b (t : tree) : bool :=
  ordered t None None && negb (is_red t) && no_red_red t &&
  match bheight t with Some _ => true | None => false end.

Fixpoint nodup_keys (l : list node) : bool :=
  match l with
  | [] => true
  | x :: l' => negb (existsb (fun y => (nk y =? nk x)%N) l') && nodup_keys l'
  end.

Fixpoint mem_node (x : node) (l : list node) : bool := existsb (node_eqb x) l.
Definition same_nodes (a b : list node) : bool :=
  Nat.eqb (length a) (length b) && forallb (fun x => mem_node x b) a && forallb (fun x => mem_node x a) b.

(* a tree bin: red-black tree, and the next-list holds exactly the tree's nodes *)
Definition tb_b (b : tbin) : bool :=
  rb_b (troot b) && nodup_keys (tord b) && same_nodes (t_elems (troot b)) (tord b).

Section WithHash.
Variable khash : N -> N.

Definition node_placed (len : Z) (i : nat) (n : node) : bool :=
  (nh n =? khash (nk n))%N && Nat.eqb (N.to_nat (N.land (nh n) (Z.to_N len - 1))) i.

Definition bin_wf (len : Z) (i : nat) (b : bin) : bool :=
  match b with
  | BNull => true
  | BMoved => false
  | BList l => negb (match l with [] => true | _ => false end) && forallb (node_placed len i) l
  | BTree t => tb_b t && forallb (node_placed len i) (tord t)
  end.

Fixpoint bins_wf (len : Z) (i : nat) (t : list bin) : bool :=
  match t with
  | [] => true
  | b :: t' => bin_wf len i b && bins_wf len (S i) t'
  end.

Definition wf_b (s : st) : bool :=
  match tbl s with
  | None => (cnt s =? 0) && (0 <=? sc s)
  | Some t =>
      let len := tlen t in
      is_pow2 len && (len <=? MAXIMUM_CAPACITY) && bins_wf len 0 t &&
      nodup_keys (nodes s) && (cnt s =? Z.of_nat (length (nodes s))) &&
      (sc s =? load_factor len)
  end.
End WithHash.
