(* Linearizability of per-key histories against the sequential map specification:
   the definition, and an executable checker. Definitions only. *)
From Flurry Require Export Base.Prelude.
From Coq Require Export NArith Permutation.
Open Scope Z_scope.

(* One completed call on one key, with what it returned.  The abstract state of a key is
   `option Z` (its value, if present). *)
Inductive kop :=
| KGet (r : option Z)                         (* get / get_key_value: value found *)
| KContains (b : bool)
| KInsert (v : Z) (old : option Z)            (* insert: previous value returned *)
| KTryInsert (v : Z) (cur : option Z)         (* try_insert: Some cur = refused *)
| KRemove (old : option Z)                    (* remove / remove_entry *)
| KCompute (f : Z -> option Z) (seen ret : option Z)
                                               (* compute_if_present: value shown to the
                                                  callback, value returned *)
| KCondRemove (obs : Z)                        (* retain: remove iff the value is still obs *)
| KForceRemove.                                (* retain_force / clear on this key *)

(* the sequential specification: new state if the recorded result is the specified one *)
Definition oeqb (a b : option Z) : bool :=
  match a, b with
  | Some x, Some y => x =? y
  | None, None => true
  | _, _ => false
  end.

Definition kapply (st : option Z) (o : kop) : option (option Z) :=
  match o with
  | KGet r => if oeqb st r then Some st else None
  | KContains b => if Bool.eqb (match st with Some _ => true | None => false end) b then Some st else None
  | KInsert v old => if oeqb st old then Some (Some v) else None
  | KTryInsert v cur =>
      match st, cur with
      | Some s, Some c => if s =? c then Some st else None
      | None, None => Some (Some v)
      | _, _ => None
      end
  | KRemove old => if oeqb st old then Some None else None
  | KCompute f seen ret =>
      match st with
      | None => if oeqb seen None && oeqb ret None then Some None else None
      | Some s => if oeqb seen (Some s) && oeqb ret (f s) then Some (f s) else None
      end
  | KCondRemove obs => Some (if oeqb st (Some obs) then None else st)
  | KForceRemove => Some None
  end.

(* invocation and response instants (scheduler steps) *)
Record kcall := C_ { c_inv : N; c_res : N; c_op : kop }.

(* a precedes b in real time *)
Definition before (a b : kcall) : Prop := (c_res a < c_inv b)%N.

(* `order` is a sequential execution of exactly the calls, legal from `init`, ending in a state
   accepted by `fin`, and never contradicting real-time order *)
Fixpoint legal (st : option Z) (l : list kcall) : option (option Z) :=
  match l with
  | [] => Some st
  | c :: l' => match kapply st (c_op c) with Some st' => legal st' l' | None => None end
  end.

Fixpoint respects_rt (l : list kcall) : Prop :=
  match l with
  | [] => True
  | c :: l' => (forall d, In d l' -> ~ before d c) /\ respects_rt l'
  end.

Definition fin_ok (fin : option (option Z)) (st : option Z) : Prop :=
  match fin with Some f => f = st | None => True end.

Definition linearizable (init : option Z) (calls : list kcall) (fin : option (option Z)) : Prop :=
  exists order st, Permutation order calls /\ respects_rt order /\
                   legal init order = Some st /\ fin_ok fin st.

(* ---------- checker: Wing-Gong search ---------- *)
(* all ways of taking one element out of a list *)
Fixpoint picks {A} (l : list A) : list (A * list A) :=
  match l with
  | [] => []
  | x :: l' => (x, l') :: map (fun p => (fst p, x :: snd p)) (picks l')
  end.

(* c may be linearized first among `rest` iff no other pending call responded before c was invoked *)
Definition minimal (c : kcall) (rest : list kcall) : bool :=
  forallb (fun d => negb (c_res d <? c_inv c)%N) rest.

Definition fin_okb (fin : option (option Z)) (st : option Z) : bool :=
  match fin with Some f => oeqb f st | None => true end.

Fixpoint search (fuel : nat) (st : option Z) (pending : list kcall) (fin : option (option Z)) : bool :=
  match pending with
  | [] => fin_okb fin st
  | _ =>
      match fuel with
      | O => false
      | S fuel' =>
          existsb (fun p =>
                     minimal (fst p) (snd p) &&
                     match kapply st (c_op (fst p)) with
                     | Some st' => search fuel' st' (snd p) fin
                     | None => false
                     end) (picks pending)
      end
  end.

Definition lin_b (init : option Z) (calls : list kcall) (fin : option (option Z)) : bool :=
  search (length calls) init calls fin.
