(* Static tables over the atomic-operation sites and the call graph regenerated from the source
   (Gen/GenAtomics.v): the read paths reach no blocking site (C12); every site respects its
   ordering discipline (C15). Definitions only. *)
From Coq Require Import List String Bool NArith.
From Flurry Require Export Gen.GenAtomics.
Import ListNotations.
Open Scope string_scope.

(* ---------- call graph by name (an over-approximation: a call to `f` may reach every function
   of the crate named `f`) ---------- *)
Definition mem (x : string) (l : list string) : bool := existsb (String.eqb x) l.

(* "name/n" : the key under which a function of arity n is called *)
Definition digit (n : N) : string :=
  match n with
  | 0%N => "0" | 1%N => "1" | 2%N => "2" | 3%N => "3" | 4%N => "4" | 5%N => "5" | 6%N => "6"
  | 7%N => "7" | 8%N => "8" | _ => "9"
  end.
Definition key_of (f : fninfo) : string := f_name f ++ "/" ++ digit (f_arity f).
Definition callees (key : string) : list string :=
  flat_map (fun f => if key_of f =? key then f_calls f else []) fns.
Fixpoint closure (fuel : nat) (frontier seen : list string) : list string :=
  match fuel with
  | O => seen
  | S fuel' =>
      match frontier with
      | [] => seen
      | x :: rest =>
          if mem x seen then closure fuel' rest seen
          else closure fuel' (callees x ++ rest) (x :: seen)
      end
  end.
(* entries are given by bare name: every arity of that name *)
Definition keys_named (names : list string) : list string :=
  map key_of (filter (fun f => mem (f_name f) names) fns).
Definition reach (entries : list string) : list string := closure 4000 (keys_named entries) [].

Definition blocking_in (keys : list string) : list (string * string) :=
  flat_map (fun f => if mem (key_of f) keys then map (fun b => (f_name f, b)) (f_blocking f) else []) fns.

(* the read entry points of the public API (by method name; every type's method of that name) *)
Definition read_entries : list string :=
  ["get"; "get_key_value"; "contains_key"; "contains"; "iter"; "keys"; "values"; "len"; "is_empty";
   "guarded_eq"; "eq"; "next"; "next_internal"; "is_subset"; "is_superset"; "is_disjoint"; "into_iter";
   "index"].

Definition reads_reach_no_blocking : bool :=
  match blocking_in (reach read_entries) with [] => true | _ => false end.

(* the entry points exist in the table (so the statement is not about an empty graph) *)
Definition read_entries_present : bool :=
  forallb (fun n => existsb (fun f => f_name f =? n) fns)
          ["get"; "get_key_value"; "contains_key"; "iter"; "keys"; "values"; "len"; "is_empty"; "next"; "find";
           "find_tree_node"; "get_node"].
(* and the graph does see the writers' locks: put reaches a lock *)
Definition writers_do_lock : bool :=
  match blocking_in (reach ["insert"]) with [] => false | _ => true end.

(* ---------- ordering disciplines ---------- *)
Definition ge_release (o : ord) : bool := match o with Release | AcqRel | SeqCst => true | _ => false end.
Definition ge_acquire (o : ord) : bool := match o with Acquire | AcqRel | SeqCst => true | _ => false end.
Definition first_ord (s : site) : ord := match s_ords s with o :: _ => o | [] => Relaxed end.
Definition is_load (s : site) : bool := (s_method s =? "load") || (s_method s =? "clone").

Inductive discipline := Private | UnderTreeWriteLock | UnderBinLock | Exclusive | Diagnostic.

(* sites allowed to use weaker orderings, with the reason *)
Definition tree_link (f : string) : bool := mem f ["left"; "right"; "parent"; "red"; "root"; "match"].
Definition exempt (fn field : string) : option discipline :=
  if fn =? "check_invariants" then Some Diagnostic
  else if mem fn ["drop"; "drop_bins"; "drop_fields"; "drop_tree_nodes"; "presize"; "capacity"; "num_cpus"] then Some Exclusive
  else if (fn =? "new") then Some Private
  else if mem fn ["transfer"; "treeify_bin"; "untreeify"] && mem field ["next"; "prev"] then Some Private
  else if mem fn ["transfer"; "treeify_bin"; "untreeify"; "remove_tree_node"] && (field =? "value") then Some UnderBinLock
  else if mem fn ["transfer"] && mem field ["first"; "next_table"] then Some UnderBinLock
  else if mem fn ["rotate_left"; "rotate_right"; "balance_insertion"; "balance_deletion"] then Some UnderTreeWriteLock
  else if mem fn ["remove_tree_node"; "find_or_put_tree_val"] && tree_link field then Some UnderTreeWriteLock
  else None.

(* pointer cells are read through Guard::protect, which loads SeqCst whatever is written;
   integer cells must carry their own ordering *)
Definition pointer_field (f : string) : bool :=
  mem f ["bins"; "bin"; "next"; "value"; "first"; "root"; "left"; "right"; "parent"; "prev"; "waiter";
         "table"; "next_table"; "moved"; "match"].

Definition site_ok (s : site) : bool :=
  match exempt (s_fn s) (s_field s) with
  | Some _ => true
  | None =>
      if is_load s then
        pointer_field (s_field s) || ge_acquire (first_ord s) || (s_field s =? "count")
      else ge_release (first_ord s)
  end.

Definition all_sites_ok : bool := forallb site_ok sites.
Definition bad_sites : list (string * string * string) :=
  map (fun s => (s_fn s, s_field s, s_method s)) (filter (fun s => negb (site_ok s)) sites).

(* the two ends of the tree write lock, and the readers' entry, carry release / acquire *)
Definition tree_lock_edges_ok : bool :=
  forallb (fun s =>
    if (s_field s =? "lock_state") then
      if (s_method s =? "store") then ge_release (first_ord s)
      else if (s_method s =? "load") then ge_acquire (first_ord s)
      else ge_release (first_ord s) && ge_acquire (first_ord s)
    else true) sites
  && existsb (fun s => (s_fn s =? "unlock_root") && (s_field s =? "lock_state")) sites.

(* bins are published with release and read with acquire *)
Definition bin_edges_ok : bool :=
  forallb (fun s =>
    if (s_field s =? "bins") then
      if is_load s then ge_acquire (first_ord s) else ge_release (first_ord s)
    else true) sites
  && existsb (fun s => (s_fn s =? "store_bin")) sites && existsb (fun s => (s_fn s =? "cas_bin")) sites.
