(* Successive resizes (generations) and a helper that may hold a table of an earlier one.
   The single-generation model Model/ResizeProto.v fixes the table length; what it cannot say is
   that a thread whose `table` pointer is stale never takes part in the resize of a later table.
   This model abstracts one generation to its control words (size_ctl, next_table set or not,
   transfer_index) and the number of threads inside transfer, lets generations follow each other,
   and follows help_transfer (map.rs) step by step for threads that may have slept through any
   number of generations:
       validate (next_table == self.next_table && table == self.table)   one step
       load size_ctl, load transfer_index, the join test                  one step
       CAS size_ctl: sc -> sc + 1                                         one step
       ... inside transfer(table, next_table) ...
       leave: CAS size_ctl: sc -> sc - 1 and the election test            one step
   The join test `brk` is a parameter: the theorem is about the expression regenerated from
   map.rs (Gen/GenArith.v help_transfer_break); the same model run with the expression as it was
   before fix 1ef080f exhibits finding F6 (Proofs/GenProofs.v).
   Table of generation g has length 16 * 2^g.  Definitions only. *)
From Flurry Require Export Model.Arith.
Open Scope Z_scope.

Definition glen (g : nat) : Z := 16 * 2 ^ Z.of_nat g.
Definition max_gen : nat := 20.          (* lengths up to 2^24: all legal table lengths *)

Inductive hpc :=
| HIdle                  (* about to call help_transfer with the table it holds *)
| HValidated             (* the while-condition held *)
| HLoaded (sc : Z)       (* size_ctl read, join test passed: about to CAS *)
| HInside                (* in transfer(table, next_table) with the table it holds *)
| HFinisher.             (* elected by the election test computed from the table it holds *)

Record helper := mkHp { held : nat; hp : hpc }.

Record gcfg := mkG {
  gen : nat;             (* generation of self.table *)
  gsc : Z;               (* size_ctl *)
  gnt : bool;            (* self.next_table is set (to the table of generation gen + 1) *)
  gti : Z;               (* transfer_index *)
  gfin : bool;           (* a thread of the current generation has been elected finisher *)
  helpers : list helper
}.

Definition rsg (g : nat) : Z := rs (glen g).

(* ---- the other threads of the map, abstractly: everything add_count / try_presize / transfer
        do to the control words for the current generation ---- *)
Inductive env :=
| EStartCas              (* size_ctl >= 0 and growth due: CAS size_ctl := rs + 2 (the initiator) *)
| EStartNT               (* the initiator swaps next_table in *)
| EStartTI               (* ... and stores transfer_index := n *)
| EJoin                  (* a thread holding the CURRENT table joins: CAS sc -> sc + 1 *)
| EClaim                 (* a stride is claimed: transfer_index decreases *)
| ELeave                 (* a thread of the current generation leaves: sc -> sc - 1, election test *)
| EPublish.              (* the finisher: next_table := null, table := next, size_ctl := threshold *)

Inductive action := AEnv (e : env) | AHelper (t : nat).

Section Run.
(* the join test of help_transfer: brk sc rs ti = true means "do not join" *)
Variable brk : Z -> Z -> Z -> bool.

Definition get_h (c : gcfg) (t : nat) : helper := nth t (helpers c) (mkHp 0 HIdle).
Definition set_h (c : gcfg) (t : nat) (h : helper) : gcfg :=
  mkG (gen c) (gsc c) (gnt c) (gti c) (gfin c) (firstn t (helpers c) ++ h :: skipn (S t) (helpers c)).
Definition with_sc (c : gcfg) (v : Z) : gcfg := mkG (gen c) v (gnt c) (gti c) (gfin c) (helpers c).

Definition env_step (c : gcfg) (e : env) : gcfg :=
  match e with
  | EStartCas =>
      if (0 <=? gsc c) && Nat.ltb (gen c) max_gen
      then mkG (gen c) (init_sc_add_count (rsg (gen c))) (gnt c) (gti c) false (helpers c) else c
  | EStartNT =>
      (* only the initiator, right after its CAS: size_ctl = rs + 2 and next_table still null *)
      if (gsc c =? rsg (gen c) + 2) && negb (gnt c) && negb (gfin c)
      then mkG (gen c) (gsc c) true (gti c) (gfin c) (helpers c) else c
  | EStartTI =>
      if (gsc c <? 0) && gnt c && (gti c =? 0) && negb (gfin c)
      then mkG (gen c) (gsc c) (gnt c) (glen (gen c)) (gfin c) (helpers c) else c
  | EJoin =>
      (* add_count / help_transfer of a thread whose table is current *)
      if (gsc c <? 0) && gnt c && (0 <? gti c) && negb (add_count_break (gsc c) (rsg (gen c)))
      then with_sc c (add_count_join_sc (gsc c)) else c
  | EClaim =>
      if (gsc c <? 0) && (0 <? gti c)
      then mkG (gen c) (gsc c) (gnt c) (Z.max 0 (gti c - 16)) (gfin c) (helpers c) else c
  | ELeave =>
      (* some thread of the current generation other than the modelled helpers is inside:
         size_ctl counts more threads than there are helpers inside *)
      let inside_helpers := Z.of_nat (length (filter (fun h => match hp h with HInside => true | _ => false end) (helpers c))) in
      if (gsc c <? 0) && negb (gfin c) && (rsg (gen c) + 1 + inside_helpers <? gsc c)
      then
        let c' := with_sc c (transfer_leave_sc (gsc c)) in
        if transfer_not_last (gsc c) (glen (gen c)) then c'
        else mkG (gen c') (gsc c') (gnt c') (gti c') true (helpers c')
      else c
  | EPublish =>
      if gfin c && gnt c
      then mkG (S (gen c)) (transfer_next_sc (glen (gen c))) false 0 false (helpers c) else c
  end.

(* one step of helper t *)
Definition helper_step (c : gcfg) (t : nat) : gcfg :=
  let h := get_h c t in
  match hp h with
  | HIdle =>
      (* next_table == self.next_table && table == self.table: the table it holds is current and
         its forwarding target is the table being filled; otherwise the operation re-reads the
         table and goes on with the current one *)
      if Nat.eqb (held h) (gen c) && gnt c then set_h c t (mkHp (held h) HValidated)
      else set_h c t (mkHp (gen c) HIdle)
  | HValidated =>
      let sc := gsc c in
      if brk sc (rs_help_transfer (glen (held h))) (gti c) then set_h c t (mkHp (gen c) HIdle)
      else set_h c t (mkHp (held h) (HLoaded sc))
  | HLoaded sc =>
      if gsc c =? sc then set_h (with_sc c (help_transfer_join_sc sc)) t (mkHp (held h) HInside)
      else set_h c t (mkHp (held h) HIdle)
  | HInside =>
      (* leaves transfer: the CAS sc -> sc - 1 and the election test, computed from the length of
         the table it holds *)
      let c' := with_sc c (transfer_leave_sc (gsc c)) in
      if transfer_not_last (gsc c) (glen (held h)) then set_h c' t (mkHp (gen c) HIdle)
      else set_h c' t (mkHp (held h) HFinisher)
  | HFinisher =>
      (* sweeps the table it was called with and publishes that table's successor, whatever
         self.table is by now (the code does not look): next_table := null, table := next of
         the table it holds, size_ctl := threshold computed from the length it holds *)
      set_h (mkG (S (held h)) (transfer_next_sc (glen (held h))) false 0 false (helpers c)) t
            (mkHp (S (held h)) HIdle)
  end.

Definition gact (c : gcfg) (a : action) : gcfg :=
  match a with AEnv e => env_step c e | AHelper t => helper_step c t end.
Definition grun (c : gcfg) (sched : list action) : gcfg := fold_left gact sched c.

(* generation 0, not resizing, k helpers holding the current table *)
Definition ginit (k : nat) : gcfg :=
  mkG 0 (load_factor (glen 0)) false 0 false (repeat (mkHp 0 HIdle) k).

(* a helper takes part in the resize of a table it does not hold *)
Definition stale_inside (c : gcfg) : bool :=
  existsb (fun h => match hp h with
                    | HInside | HFinisher => negb (Nat.eqb (held h) (gen c))
                    | _ => false
                    end) (helpers c).

(* the resize can no longer complete: size_ctl says "finishing" (rs + 1), nobody is the finisher,
   no helper is inside *)
Definition stuck (c : gcfg) : bool :=
  (gsc c =? rsg (gen c) + 1) && negb (gfin c) && gnt c &&
  forallb (fun h => match hp h with HInside | HFinisher => false | _ => true end) (helpers c).

End Run.
