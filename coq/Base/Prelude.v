(* Base definitions shared by every model file: machine-integer helpers over Z/N.
   Plain stdlib only. No proofs that are specific to flurry live here. *)
From Coq Require Export List ZArith NArith Bool Lia.
Export ListNotations.
Open Scope Z_scope.

(* two's-complement wrap of a mathematical integer into isize (64 bit) *)
Definition wrap64 (z : Z) : Z := (z + 2 ^ 63) mod 2 ^ 64 - 2 ^ 63.
(* wrap into usize / u64 *)
Definition wrapU64 (z : Z) : Z := z mod 2 ^ 64.

(* number of leading zero bits of a 64-bit unsigned value *)
Definition lzcnt64 (z : Z) : Z := if z <=? 0 then 64 else 64 - Z.log2 z - 1.

(* usize::next_power_of_two for 1 <= z (0 maps to 1 as in Rust) *)
Definition next_pow2 (z : Z) : Z := if z <=? 1 then 1 else 2 ^ Z.log2_up z.

Definition is_pow2 (z : Z) : bool := (0 <? z) && (2 ^ Z.log2 z =? z).

Lemma wrap64_id z : - 2 ^ 63 <= z < 2 ^ 63 -> wrap64 z = z.
Proof. intros H. unfold wrap64. rewrite Z.mod_small; lia. Qed.

Lemma wrapU64_id z : 0 <= z < 2 ^ 64 -> wrapU64 z = z.
Proof. intros H. unfold wrapU64. apply Z.mod_small; lia. Qed.

Lemma wrap64_range z : - 2 ^ 63 <= wrap64 z < 2 ^ 63.
Proof. unfold wrap64. pose proof (Z.mod_pos_bound (z + 2 ^ 63) (2 ^ 64)). lia. Qed.
