//! GenApi.v: for every method of HashMap / HashSet / HashMapRef / HashSetRef (inherent and trait
//! impls), which parameters are guards and what the body does with each of them.

use crate::find::*;
use quote::ToTokens;
use syn::visit::{self, Visit};
use syn::{Expr, FnArg, Pat, Stmt};

#[derive(Debug, Clone)]
pub enum Use {
    /// passed as an argument to `<recv>.<method>(..)`; recv already resolved to a type name
    Arg { callee_ty: String, root: String, method: String },
    Other(String),
}

#[derive(Debug, Clone)]
pub struct GuardInfo {
    pub name: String,
    pub check_first: bool,
    pub uses: Vec<Use>,
}

#[derive(Debug, Clone)]
pub struct Row {
    pub ty: String,
    pub trait_: String,
    pub name: String,
    pub public: bool,
    pub file: String,
    pub line: usize,
    pub guards: Vec<GuardInfo>,
    /// for functions without a guard parameter: how they obtain one
    pub own: String, // "own" | "unprotected" | "field" | "none"
    /// uses of a locally created / field guard
    pub local_uses: Vec<Use>,
    /// what the first `unreachable!`/`panic!` on a `Some(..)` arm looks like (serde); free text
    pub notes: Vec<String>,
}

fn is_guard_ty(t: &syn::Type) -> bool {
    let s = t.to_token_stream().to_string().replace(' ', "");
    s.starts_with("&") && s.contains("Guard<")
}

fn recv_root(e: &Expr) -> String {
    let s = e.to_token_stream().to_string().replace(' ', "");
    let s = s.trim_start_matches("(*").trim_end_matches(')').to_string();
    s
}

fn resolve(impl_ty: &str, root: &str) -> String {
    let r = root.trim_start_matches('&');
    match (impl_ty, r) {
        ("HashMap", "self") | ("HashMap", "other") | ("HashMap", "cloned_map") | ("HashMap", "map") => "HashMap".into(),
        ("HashSet", "self") | ("HashSet", "other") => "HashSet".into(),
        ("HashSet", "self.map") | ("HashSet", "other.map") => "HashMap".into(),
        ("HashMapRef", "self.map") | ("HashMapRef", "other.map") | ("HashMapRef", "other") => "HashMap".into(),
        ("HashMapRef", "self") => "HashMapRef".into(),
        ("HashSetRef", "self.set") | ("HashSetRef", "other.set") | ("HashSetRef", "other") => "HashSet".into(),
        ("HashSetRef", "self") => "HashSetRef".into(),
        _ => "?".into(),
    }
}

struct Uses<'a> {
    impl_ty: &'a str,
    /// guard expressions we look for, as token text without spaces (e.g. "guard", "&self.guard", "&guard")
    names: Vec<String>,
    found: Vec<(usize, Use)>,
    depth_in_call_arg: bool,
}

fn strip_ref(s: &str) -> String {
    s.trim_start_matches('&').to_string()
}

impl<'a, 'ast> Visit<'ast> for Uses<'a> {
    fn visit_expr_method_call(&mut self, m: &'ast syn::ExprMethodCall) {
        // guard passed as an argument?
        for a in &m.args {
            let t = strip_ref(&a.to_token_stream().to_string().replace(' ', ""));
            if let Some(ix) = self.names.iter().position(|n| *n == t) {
                let root = recv_root(&m.receiver);
                self.found.push((
                    ix,
                    Use::Arg {
                        callee_ty: resolve(self.impl_ty, &root),
                        root,
                        method: m.method.to_string(),
                    },
                ));
            } else {
                self.visit_expr(a);
            }
        }
        // receiver may itself be the guard (e.g. guard.refresh())
        let rt = strip_ref(&m.receiver.to_token_stream().to_string().replace(' ', ""));
        if let Some(ix) = self.names.iter().position(|n| *n == rt) {
            self.found.push((ix, Use::Other(format!("method {} called on the guard", m.method))));
        } else {
            self.visit_expr(&m.receiver);
        }
    }
    fn visit_expr_call(&mut self, c: &'ast syn::ExprCall) {
        for a in &c.args {
            let t = strip_ref(&a.to_token_stream().to_string().replace(' ', ""));
            if let Some(ix) = self.names.iter().position(|n| *n == t) {
                let f = c.func.to_token_stream().to_string().replace(' ', "");
                // constructors that merely store the guard
                self.found.push((ix, Use::Other(format!("passed to {}", f))));
            } else {
                self.visit_expr(a);
            }
        }
        self.visit_expr(&c.func);
    }
    fn visit_expr_path(&mut self, p: &'ast syn::ExprPath) {
        let t = p.to_token_stream().to_string().replace(' ', "");
        if let Some(ix) = self.names.iter().position(|n| *n == t) {
            self.found.push((ix, Use::Other("bare use".into())));
        }
    }
    fn visit_expr_field(&mut self, f: &'ast syn::ExprField) {
        let t = f.to_token_stream().to_string().replace(' ', "");
        if let Some(ix) = self.names.iter().position(|n| *n == t) {
            self.found.push((ix, Use::Other("bare use".into())));
            return;
        }
        visit::visit_expr_field(self, f);
    }
    fn visit_expr_struct(&mut self, s: &'ast syn::ExprStruct) {
        // `Iter { node_iter, guard }` : storing the guard in a returned struct is not a use
        for f in &s.fields {
            let t = strip_ref(&f.expr.to_token_stream().to_string().replace(' ', ""));
            if self.names.iter().any(|n| *n == t) {
                continue;
            }
            // GuardRef::Ref(guard)
            if let Expr::Call(c) = &f.expr {
                let fun = c.func.to_token_stream().to_string().replace(' ', "");
                if fun.starts_with("GuardRef::") {
                    continue;
                }
            }
            self.visit_expr(&f.expr);
        }
        let _ = self.depth_in_call_arg;
    }
}

fn first_stmt_checks(block: &syn::Block, g: &str) -> bool {
    match block.stmts.first() {
        Some(Stmt::Expr(Expr::MethodCall(m), Some(_))) => {
            m.method == "check_guard"
                && recv_root(&m.receiver) == "self"
                && m.args.len() == 1
                && strip_ref(&m.args[0].to_token_stream().to_string().replace(' ', "")) == g
        }
        _ => false,
    }
}

pub fn rows(file: &syn::File, fname: &str, types: &[&str]) -> Vec<Row> {
    let mut out = Vec::new();
    for fr in impl_fns(file) {
        let ty = fr.self_ty.trim_start_matches('&').to_string();
        if !types.contains(&ty.as_str()) {
            continue;
        }
        let f = fr.f;
        let public = matches!(f.vis, syn::Visibility::Public(_)) || fr.trait_.is_some();
        let mut gnames = Vec::new();
        for a in &f.sig.inputs {
            if let FnArg::Typed(t) = a {
                if is_guard_ty(&t.ty) {
                    if let Pat::Ident(p) = &*t.pat {
                        gnames.push(p.ident.to_string());
                    } else if let Pat::Wild(_) = &*t.pat {
                        gnames.push("_".into());
                    }
                }
            }
        }
        let body_txt = f.block.to_token_stream().to_string().replace(' ', "");
        let mut row = Row {
            ty: ty.clone(),
            trait_: fr.trait_.clone().unwrap_or_default(),
            name: f.sig.ident.to_string(),
            public,
            file: fname.into(),
            line: line_of(&f.sig),
            guards: vec![],
            own: "none".into(),
            local_uses: vec![],
            notes: vec![],
        };
        if !gnames.is_empty() {
            let mut u = Uses {
                impl_ty: &ty,
                names: gnames.clone(),
                found: vec![],
                depth_in_call_arg: false,
            };
            u.visit_block(&f.block);
            for (ix, g) in gnames.iter().enumerate() {
                let check_first = first_stmt_checks(&f.block, g);
                let mut uses: Vec<Use> = u.found.iter().filter(|(i, _)| *i == ix).map(|(_, u)| u.clone()).collect();
                if check_first {
                    // drop the check_guard call itself from the uses
                    let mut dropped = false;
                    uses.retain(|x| {
                        if !dropped {
                            if let Use::Arg { method, .. } = x {
                                if method == "check_guard" {
                                    dropped = true;
                                    return false;
                                }
                            }
                        }
                        true
                    });
                }
                row.guards.push(GuardInfo {
                    name: g.clone(),
                    check_first,
                    uses,
                });
            }
        } else {
            // guard sources without a parameter
            let mut names = vec![];
            if body_txt.contains("Guard::unprotected()") {
                row.own = "unprotected".into();
                names.push("guard".to_string());
            } else if body_txt.contains("self.guard") && (ty == "HashMapRef" || ty == "HashSetRef") && !body_txt.contains("self.guard()") {
                row.own = "field".into();
                names.push("self.guard".to_string());
            } else if body_txt.contains(".guard()") || body_txt.contains("collector.enter()") {
                row.own = "own".into();
                names.push("guard".to_string());
                names.push("cloned_guard".to_string());
                names.push("self.guard()".to_string());
                names.push("other.guard()".to_string());
            }
            if body_txt.contains("self.guard") && (ty == "HashMapRef" || ty == "HashSetRef") {
                if !names.contains(&"self.guard".to_string()) {
                    names.push("self.guard".to_string());
                }
                if !names.contains(&"other.guard".to_string()) {
                    names.push("other.guard".to_string());
                }
                if row.own == "none" {
                    row.own = "field".into();
                }
            }
            if !names.is_empty() {
                let mut u = Uses {
                    impl_ty: &ty,
                    names,
                    found: vec![],
                    depth_in_call_arg: false,
                };
                u.visit_block(&f.block);
                row.local_uses = u.found.into_iter().map(|(_, u)| u).collect();
            }
        }
        // serde / panics on data-dependent arms
        for mac in ["unreachable!", "panic!", "unimplemented!", "todo!"] {
            if body_txt.contains(mac) {
                row.notes.push(mac.to_string());
            }
        }
        out.push(row);
    }
    out
}

fn coq_str(s: &str) -> String {
    format!("\"{}\"", s.replace('"', "\"\""))
}

fn coq_use(u: &Use) -> String {
    match u {
        Use::Arg { callee_ty, root, method } => {
            format!("UArg {} {} {}", coq_str(callee_ty), coq_str(root), coq_str(method))
        }
        Use::Other(s) => format!("UOther {}", coq_str(s)),
    }
}

pub fn to_coq(rows: &[Row]) -> String {
    let mut s = String::new();
    s.push_str(
        "(* GENERATED by /verif/translator from /repo/src/{map,set,map_ref,set_ref}.rs. Do not edit. *)\n\
         From Coq Require Import List String NArith.\nImport ListNotations.\nOpen Scope string_scope.\n\n\
         Inductive guse := UArg (callee_ty root method : string) | UOther (what : string).\n\
         Record ginfo := { g_name : string; g_check_first : bool; g_uses : list guse }.\n\
         Record api_row := { a_ty : string; a_trait : string; a_name : string; a_pub : bool;\n\
         \x20 a_file : string; a_line : N; a_guards : list ginfo; a_own : string; a_local_uses : list guse;\n\
         \x20 a_notes : list string }.\n\n\
         Definition api : list api_row := [\n",
    );
    let mut first = true;
    for r in rows {
        if !first {
            s.push_str(";\n");
        }
        first = false;
        let guards: Vec<String> = r
            .guards
            .iter()
            .map(|g| {
                format!(
                    "{{| g_name := {}; g_check_first := {}; g_uses := [{}] |}}",
                    coq_str(&g.name),
                    g.check_first,
                    g.uses.iter().map(coq_use).collect::<Vec<_>>().join("; ")
                )
            })
            .collect();
        s.push_str(&format!(
            "  {{| a_ty := {}; a_trait := {}; a_name := {}; a_pub := {}; a_file := {}; a_line := {}%N;\n     a_guards := [{}];\n     a_own := {}; a_local_uses := [{}]; a_notes := [{}] |}}",
            coq_str(&r.ty),
            coq_str(&r.trait_),
            coq_str(&r.name),
            r.public,
            coq_str(&r.file),
            r.line,
            guards.join("; "),
            coq_str(&r.own),
            r.local_uses.iter().map(coq_use).collect::<Vec<_>>().join("; "),
            r.notes.iter().map(|n| coq_str(n)).collect::<Vec<_>>().join("; ")
        ));
    }
    s.push_str("\n].\n");
    s
}
