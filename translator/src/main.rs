//! translator: /repo/src/*.rs  ->  /verif/coq/Gen/*.v  (+ gen.json)
//!
//! usage: translator <repo-src-dir> <out-dir>
//! Exit status 0: all tables generated. 2: a targeted construct was not found or uses syntax
//! outside the supported fragment (reported on stderr) - the correspondence is broken.

mod api;
mod arith;
mod atomics;
mod expr;
mod find;
mod sections;
mod sigs;

use std::fs;
use std::path::Path;

fn parse(dir: &Path, rel: &str) -> Result<syn::File, String> {
    let p = dir.join(rel);
    let s = fs::read_to_string(&p).map_err(|e| format!("{}: {}", p.display(), e))?;
    syn::parse_file(&s).map_err(|e| format!("{}: {}", p.display(), e))
}

fn write_if_changed(p: &Path, content: &str) {
    if let Ok(old) = fs::read_to_string(p) {
        if old == content {
            return;
        }
    }
    fs::write(p, content).expect("write");
}

fn json_str(s: &str) -> String {
    let mut o = String::from("\"");
    for c in s.chars() {
        match c {
            '"' => o.push_str("\\\""),
            '\\' => o.push_str("\\\\"),
            '\n' => o.push_str("\\n"),
            '\t' => o.push_str("\\t"),
            c if (c as u32) < 0x20 => o.push_str(&format!("\\u{:04x}", c as u32)),
            c => o.push(c),
        }
    }
    o.push('"');
    o
}

fn run(src: &Path, out: &Path) -> Result<(), String> {
    let map = parse(src, "map.rs")?;
    let node = parse(src, "node.rs")?;
    let set = parse(src, "set.rs")?;
    let map_ref = parse(src, "map_ref.rs")?;
    let set_ref = parse(src, "set_ref.rs")?;

    let mut json = String::from("{\n");

    // GenArith
    let a = arith::gen(&map, &node)?;
    write_if_changed(&out.join("GenArith.v"), &a.coq);
    json.push_str("\"arith\": [\n");
    json.push_str(
        &a.items
            .iter()
            .map(|(n, l, t)| format!("  {{\"name\": {}, \"loc\": {}, \"rust\": {}}}", json_str(n), json_str(l), json_str(t)))
            .collect::<Vec<_>>()
            .join(",\n"),
    );
    json.push_str("\n],\n");

    // GenAtomics
    {
        let mut sites = Vec::new();
        let mut fns = Vec::new();
        let mut lockexts = Vec::new();
        for (f, name) in [(&map, "map.rs"), (&node, "node.rs"), (&set, "set.rs"), (&map_ref, "map_ref.rs"), (&set_ref, "set_ref.rs")] {
            let (s, f2) = atomics::scan(f, name);
            sites.extend(s);
            fns.extend(f2);
            lockexts.extend(atomics::scan_locks(f, name));
        }
        for rel in ["raw/mod.rs", "iter/traverser.rs", "iter/mod.rs", "serde_impls.rs", "rayon_impls.rs"] {
            let f = parse(src, rel)?;
            let (s, f2) = atomics::scan(&f, rel);
            sites.extend(s);
            fns.extend(f2);
            lockexts.extend(atomics::scan_locks(&f, rel));
        }
        let n_lock_sites: usize = fns.iter().map(|f| f.blocking.iter().filter(|b| b.0 == "lock").count()).sum();
        let tree_lock = atomics::scan_tree_lock(&node);
        write_if_changed(
            &out.join("GenLocks.v"),
            &(atomics::locks_to_coq(&lockexts, n_lock_sites) + &atomics::tree_lock_to_coq(&tree_lock, &sites)),
        );
        write_if_changed(&out.join("GenAtomics.v"), &atomics::to_coq(&sites, &fns));
        json.push_str("\"atomics\": [\n");
        json.push_str(
            &sites
                .iter()
                .map(|x| format!("  {{\"file\": {}, \"fn\": {}, \"line\": {}, \"field\": {}, \"method\": {}, \"ords\": {}, \"mline\": {}}}",
                    json_str(&x.file), json_str(&x.func), x.line, json_str(&x.field), json_str(&x.method), json_str(&x.ords.join(",")), x.mline))
                .collect::<Vec<_>>()
                .join(",\n"),
        );
        json.push_str("\n],\n");
        json.push_str("\"bin_calls\": [\n");
        json.push_str(
            &fns.iter()
                .flat_map(|f| f.tc_calls.iter().map(move |(m, l)| format!("  {{\"file\": {}, \"fn\": {}, \"accessor\": {}, \"mline\": {}}}", json_str(&f.file), json_str(&f.name), json_str(m), l)))
                .collect::<Vec<_>>()
                .join(",\n"),
        );
        json.push_str("\n],\n");
        json.push_str("\"fns\": [\n");
        json.push_str(
            &fns.iter()
                .map(|f| format!("  {{\"file\": {}, \"name\": {}, \"line\": {}}}", json_str(&f.file), json_str(&f.name), f.line))
                .collect::<Vec<_>>()
                .join(",\n"),
        );
        json.push_str("\n],\n");
    }

    // GenSig / GenBounds
    {
        let mut sg = Vec::new();
        let mut bd = Vec::new();
        let files: Vec<(syn::File, &str, Vec<&str>)> = vec![
            (parse(src, "map.rs")?, "map.rs", vec!["HashMap"]),
            (parse(src, "set.rs")?, "set.rs", vec!["HashSet"]),
            (parse(src, "map_ref.rs")?, "map_ref.rs", vec!["HashMapRef", "HashMap"]),
            (parse(src, "set_ref.rs")?, "set_ref.rs", vec!["HashSetRef", "HashSet"]),
            (parse(src, "iter/mod.rs")?, "iter/mod.rs", vec!["Iter", "Keys", "Values"]),
            (parse(src, "serde_impls.rs")?, "serde_impls.rs", vec!["HashMap", "HashSet", "HashMapVisitor", "HashSetVisitor"]),
            (parse(src, "rayon_impls.rs")?, "rayon_impls.rs", vec!["HashMap", "HashSet", "HashMapRef", "HashSetRef"]),
        ];
        for (f, name, tys) in &files {
            let (a, b) = sigs::scan(f, name, tys);
            sg.extend(a);
            bd.extend(b);
        }
        bd.extend(sigs::unsafe_impls(&node, "node.rs"));
        write_if_changed(&out.join("GenSig.v"), &sigs::sig_coq(&sg));
        write_if_changed(&out.join("GenBounds.v"), &sigs::bounds_coq(&bd));
        json.push_str("\"sigs\": [\n");
        json.push_str(
            &sg.iter()
                .filter(|r| r.returns_borrow)
                .map(|r| format!("  {{\"ty\": {}, \"trait\": {}, \"name\": {}, \"file\": {}}}", json_str(&r.ty), json_str(&r.trait_), json_str(&r.name), json_str(&r.file)))
                .collect::<Vec<_>>()
                .join(",\n"),
        );
        json.push_str("\n],\n");
    }

    // GenPanic
    write_if_changed(&out.join("GenPanic.v"), &sections::gen(&map)?);

    // GenApi
    let mut rows = api::rows(&map, "map.rs", &["HashMap"]);
    rows.extend(api::rows(&set, "set.rs", &["HashSet"]));
    rows.extend(api::rows(&map_ref, "map_ref.rs", &["HashMapRef", "HashMap"]));
    rows.extend(api::rows(&set_ref, "set_ref.rs", &["HashSetRef", "HashSet"]));
    if let Ok(f) = parse(src, "serde_impls.rs") {
        rows.extend(api::rows(&f, "serde_impls.rs", &["HashMap", "HashSet", "HashMapVisitor", "HashSetVisitor"]));
    }
    if let Ok(f) = parse(src, "rayon_impls.rs") {
        rows.extend(api::rows(&f, "rayon_impls.rs", &["HashMap", "HashSet", "HashMapRef", "HashSetRef"]));
    }
    write_if_changed(&out.join("GenApi.v"), &api::to_coq(&rows));
    json.push_str("\"api\": [\n");
    json.push_str(
        &rows
            .iter()
            .map(|r| {
                format!(
                    "  {{\"ty\": {}, \"trait\": {}, \"name\": {}, \"pub\": {}, \"file\": {}, \"line\": {}, \"guards\": [{}], \"own\": {}}}",
                    json_str(&r.ty),
                    json_str(&r.trait_),
                    json_str(&r.name),
                    r.public,
                    json_str(&r.file),
                    r.line,
                    r.guards
                        .iter()
                        .map(|g| format!("{{\"name\": {}, \"check_first\": {}}}", json_str(&g.name), g.check_first))
                        .collect::<Vec<_>>()
                        .join(", "),
                    json_str(&r.own)
                )
            })
            .collect::<Vec<_>>()
            .join(",\n"),
    );
    json.push_str("\n]\n}\n");
    write_if_changed(&out.join("gen.json"), &json);
    Ok(())
}

fn main() {
    let args: Vec<String> = std::env::args().collect();
    if args.len() != 3 {
        eprintln!("usage: translator <repo-src-dir> <out-dir>");
        std::process::exit(2);
    }
    if let Err(e) = run(Path::new(&args[1]), Path::new(&args[2])) {
        eprintln!("TRANSLATOR-ERROR: {}", e);
        std::process::exit(2);
    }
}
