//! GenAtomics.v: every atomic operation, lock acquisition, park/unpark/yield/spin site of the
//! crate with its enclosing function, field and memory orderings; plus the call graph by name.

use crate::find::*;
use quote::ToTokens;
use syn::visit::{self, Visit};

pub struct Site {
    pub file: String,
    pub ty: String,
    pub func: String,
    pub line: usize,
    pub field: String,
    pub method: String,
    pub ords: Vec<String>,
    /// line of the method name (what `Location::caller` reports for a `#[track_caller]` wrapper)
    pub mline: usize,
}

pub struct FnInfo {
    pub file: String,
    pub ty: String,
    pub name: String,
    pub line: usize,
    /// callee name with the number of arguments passed, as `name/n`
    pub calls: Vec<String>,
    pub blocking: Vec<(String, usize)>, // lock / park / yield_now / spin_loop
    pub unparks: usize,
    /// number of parameters besides `self`
    pub arity: usize,
    /// calls of the `#[track_caller]` bin accessors (bin / cas_bin / store_bin / next_table):
    /// (accessor, line of the method name)
    pub tc_calls: Vec<(String, usize)>,
    /// receivers (last field / variable) of `.clone()` calls in the body
    pub clone_recvs: Vec<String>,
}

fn last_field(e: &syn::Expr) -> String {
    match e {
        syn::Expr::Field(f) => match &f.member {
            syn::Member::Named(i) => i.to_string(),
            syn::Member::Unnamed(i) => i.index.to_string(),
        },
        syn::Expr::Index(i) => last_field(&i.expr),
        syn::Expr::Paren(p) => last_field(&p.expr),
        syn::Expr::Reference(r) => last_field(&r.expr),
        syn::Expr::Unary(u) => last_field(&u.expr),
        syn::Expr::MethodCall(m) => format!("{}()", m.method),
        syn::Expr::Path(p) => p.path.segments.last().map(|s| s.ident.to_string()).unwrap_or_default(),
        syn::Expr::Match(_) => "match".into(),
        _ => "?".into(),
    }
}

fn ordering_of(e: &syn::Expr) -> Option<String> {
    let t = e.to_token_stream().to_string().replace(' ', "");
    t.strip_prefix("Ordering::").map(|s| s.to_string())
}

struct V<'a> {
    file: &'a str,
    ty: String,
    func: String,
    sites: Vec<Site>,
    calls: Vec<String>,
    blocking: Vec<(String, usize)>,
    unparks: usize,
    tc_calls: Vec<(String, usize)>,
    /// receivers (last field / variable) of `.clone()` calls
    clone_recvs: Vec<String>,
}

impl<'a, 'ast> Visit<'ast> for V<'a> {
    fn visit_expr_method_call(&mut self, m: &'ast syn::ExprMethodCall) {
        let name = m.method.to_string();
        let ords: Vec<String> = m.args.iter().filter_map(ordering_of).collect();
        if !ords.is_empty() {
            self.sites.push(Site {
                file: self.file.to_string(),
                ty: self.ty.clone(),
                func: self.func.clone(),
                line: line_of(m),
                field: last_field(&m.receiver),
                method: name.clone(),
                ords,
                mline: line_of(&m.method),
            });
        } else if name == "clone" && matches!(last_field(&m.receiver).as_str(), "value") {
            self.sites.push(Site {
                file: self.file.to_string(),
                ty: self.ty.clone(),
                func: self.func.clone(),
                line: line_of(m),
                field: "value".into(),
                method: "clone".into(),
                ords: vec!["Relaxed".into()],
                mline: line_of(&m.method),
            });
        } else if name == "lock" && m.args.is_empty() {
            self.blocking.push(("lock".into(), line_of(m)));
        } else if name == "unpark" {
            self.unparks += 1;
        } else {
            if name == "clone" && m.args.is_empty() {
                self.clone_recvs.push(last_field(&m.receiver));
            }
            if matches!(name.as_str(), "bin" | "cas_bin" | "store_bin" | "next_table") {
                self.tc_calls.push((name.clone(), line_of(&m.method)));
            }
            self.calls.push(format!("{}/{}", name, m.args.len()));
        }
        visit::visit_expr_method_call(self, m);
    }
    fn visit_expr_call(&mut self, c: &'ast syn::ExprCall) {
        let f = c.func.to_token_stream().to_string().replace(' ', "");
        let last = f.rsplit("::").next().unwrap_or("").to_string();
        match last.as_str() {
            "park" => self.blocking.push(("park".into(), line_of(c))),
            "yield_now" => self.blocking.push(("yield_now".into(), line_of(c))),
            "spin_loop" => self.blocking.push(("spin_loop".into(), line_of(c))),
            _ => self.calls.push(format!("{}/{}", last, c.args.len())),
        }
        visit::visit_expr_call(self, c);
    }
    fn visit_expr_macro(&mut self, m: &'ast syn::ExprMacro) {
        // treenode!(x) expands to get_tree_node
        let n = m.mac.path.to_token_stream().to_string();
        if n == "treenode" {
            self.calls.push("get_tree_node/1".into());
        }
        visit::visit_expr_macro(self, m);
    }
    fn visit_expr_for_loop(&mut self, f: &'ast syn::ExprForLoop) {
        // `for x in it` calls Iterator::next
        self.calls.push("next/0".into());
        self.calls.push("into_iter/0".into());
        visit::visit_expr_for_loop(self, f);
    }
    fn visit_expr_binary(&mut self, b: &'ast syn::ExprBinary) {
        if matches!(b.op, syn::BinOp::Eq(_) | syn::BinOp::Ne(_)) {
            self.calls.push("eq/1".into());
        }
        visit::visit_expr_binary(self, b);
    }
}

pub fn scan(file: &syn::File, fname: &str) -> (Vec<Site>, Vec<FnInfo>) {
    let mut sites = Vec::new();
    let mut fns = Vec::new();
    for fr in impl_fns(file) {
        // skip #[cfg(test)] items by name heuristics: test modules are `mod tests`, not impls
        let mut v = V {
            file: fname,
            ty: fr.self_ty.trim_start_matches('&').to_string(),
            func: fr.f.sig.ident.to_string(),
            sites: vec![],
            calls: vec![],
            blocking: vec![],
            unparks: 0,
            tc_calls: Vec::new(),
                clone_recvs: Vec::new(),
        };
        v.visit_block(&fr.f.block);
        fns.push(FnInfo {
            file: fname.into(),
            ty: v.ty.clone(),
            name: v.func.clone(),
            line: line_of(&fr.f.sig),
            calls: {
                let mut c = v.calls.clone();
                c.sort();
                c.dedup();
                c
            },
            blocking: v.blocking.clone(),
            unparks: v.unparks,
            tc_calls: v.tc_calls.clone(),
            arity: fr.f.sig.inputs.iter().filter(|a| matches!(a, syn::FnArg::Typed(_))).count(),
            clone_recvs: { let mut c = v.clone_recvs.clone(); c.sort(); c.dedup(); c },
        });
        sites.extend(v.sites);
    }
    // free functions (e.g. num_cpus)
    for it in &file.items {
        if let syn::Item::Fn(f) = it {
            if f.attrs.iter().any(|a| a.to_token_stream().to_string().contains("test")) {
                continue;
            }
            let mut v = V {
                file: fname,
                ty: String::new(),
                func: f.sig.ident.to_string(),
                sites: vec![],
                calls: vec![],
                blocking: vec![],
                unparks: 0,
                tc_calls: Vec::new(),
                clone_recvs: Vec::new(),
            };
            v.visit_block(&f.block);
            fns.push(FnInfo {
                file: fname.into(),
                ty: String::new(),
                name: v.func.clone(),
                line: line_of(&f.sig),
                calls: v.calls.clone(),
                blocking: v.blocking.clone(),
                unparks: v.unparks,
                tc_calls: v.tc_calls.clone(),
                arity: f.sig.inputs.len(),
                clone_recvs: { let mut c = v.clone_recvs.clone(); c.sort(); c.dedup(); c },
            });
            sites.extend(v.sites);
        }
    }
    (sites, fns)
}

/// The lexical extent of a mutex guard: from `let g = <recv>.lock();` to `drop(g);` in the same
/// block, or to the end of that block.
pub struct LockExt {
    pub file: String,
    pub func: String,
    pub line: usize,
    pub recv: String,
    pub guard: String,
    /// closed by an explicit drop(g) (otherwise the end of the enclosing block)
    pub explicit_drop: bool,
    pub end_line: usize,
    pub calls: Vec<String>,
    pub blocking: Vec<(String, usize)>,
    pub clone_recvs: Vec<String>,
}

fn lock_init(l: &syn::Local) -> Option<(String, String)> {
    let init = l.init.as_ref()?;
    if let syn::Expr::MethodCall(m) = &*init.expr {
        if m.method == "lock" && m.args.is_empty() {
            let g = match &l.pat {
                syn::Pat::Ident(i) => i.ident.to_string(),
                other => other.to_token_stream().to_string(),
            };
            return Some((g, m.receiver.to_token_stream().to_string().replace(' ', "")));
        }
    }
    None
}

fn is_drop_of(st: &syn::Stmt, g: &str) -> bool {
    if let syn::Stmt::Expr(syn::Expr::Call(c), _) = st {
        let f = c.func.to_token_stream().to_string().replace(' ', "");
        if (f == "drop" || f.ends_with("::drop")) && c.args.len() == 1 {
            return c.args[0].to_token_stream().to_string().replace(' ', "") == g;
        }
    }
    false
}

struct LockV<'a> {
    file: &'a str,
    func: String,
    out: Vec<LockExt>,
}

impl<'a, 'ast> Visit<'ast> for LockV<'a> {
    fn visit_block(&mut self, b: &'ast syn::Block) {
        for (i, st) in b.stmts.iter().enumerate() {
            if let syn::Stmt::Local(l) = st {
                if let Some((g, recv)) = lock_init(l) {
                    let mut v = V {
                        file: self.file,
                        ty: String::new(),
                        func: self.func.clone(),
                        sites: vec![],
                        calls: vec![],
                        blocking: vec![],
                        unparks: 0,
                        tc_calls: Vec::new(),
                clone_recvs: Vec::new(),
                    };
                    let mut explicit = false;
                    let mut end_line = b.brace_token.span.close().start().line;
                    for later in &b.stmts[i + 1..] {
                        if is_drop_of(later, &g) {
                            explicit = true;
                            end_line = line_of(later);
                            break;
                        }
                        v.visit_stmt(later);
                    }
                    let mut calls = v.calls.clone();
                    calls.sort();
                    calls.dedup();
                    self.out.push(LockExt {
                        file: self.file.to_string(),
                        func: self.func.clone(),
                        line: line_of(l),
                        recv,
                        guard: g,
                        explicit_drop: explicit,
                        end_line,
                        calls,
                        blocking: v.blocking.clone(),
                        clone_recvs: {
                            let mut c = v.clone_recvs.clone();
                            c.sort();
                            c.dedup();
                            c
                        },
                    });
                }
            }
        }
        visit::visit_block(self, b);
    }
}

/// Tree-bin write lock: per function, the `lock_root()` / `unlock_root()` call lines, the calls of
/// the restructuring helpers, and nothing else (the Relaxed link stores come from the site table).
pub struct TreeLockFn {
    pub func: String,
    pub lock_lines: Vec<usize>,
    pub unlock_lines: Vec<usize>,
    /// (helper, line)
    pub helper_calls: Vec<(String, usize)>,
}

struct TreeLockV {
    lock_lines: Vec<usize>,
    unlock_lines: Vec<usize>,
    helper_calls: Vec<(String, usize)>,
}

const TREE_HELPERS: [&str; 4] = ["balance_insertion", "balance_deletion", "rotate_left", "rotate_right"];

impl<'ast> Visit<'ast> for TreeLockV {
    fn visit_expr_method_call(&mut self, m: &'ast syn::ExprMethodCall) {
        let name = m.method.to_string();
        if name == "lock_root" {
            self.lock_lines.push(line_of(&m.method));
        } else if name == "unlock_root" {
            self.unlock_lines.push(line_of(&m.method));
        } else if TREE_HELPERS.contains(&name.as_str()) {
            self.helper_calls.push((name, line_of(&m.method)));
        }
        visit::visit_expr_method_call(self, m);
    }
    fn visit_expr_call(&mut self, c: &'ast syn::ExprCall) {
        let f = c.func.to_token_stream().to_string().replace(' ', "");
        let last = f.rsplit("::").next().unwrap_or("").to_string();
        if TREE_HELPERS.contains(&last.as_str()) {
            self.helper_calls.push((last, line_of(&c.func)));
        }
        visit::visit_expr_call(self, c);
    }
}

pub fn scan_tree_lock(file: &syn::File) -> Vec<TreeLockFn> {
    let mut out = Vec::new();
    for fr in impl_fns(file) {
        let mut v = TreeLockV { lock_lines: vec![], unlock_lines: vec![], helper_calls: vec![] };
        v.visit_block(&fr.f.block);
        if !v.lock_lines.is_empty() || !v.unlock_lines.is_empty() || !v.helper_calls.is_empty() {
            out.push(TreeLockFn { func: fr.f.sig.ident.to_string(), lock_lines: v.lock_lines, unlock_lines: v.unlock_lines, helper_calls: v.helper_calls });
        }
    }
    out
}

pub fn tree_lock_to_coq(fns: &[TreeLockFn], sites: &[Site]) -> String {
    let mut s = String::from(
        "\n(* node.rs: per function, the lines of its lock_root() / unlock_root() calls and of its calls of the\n\
         restructuring helpers; and every Relaxed store site of node.rs (function, line, field) *)\n\
         Record treelockfn := { tl_fn : string; tl_locks : list N; tl_unlocks : list N; tl_helpers : list (string * N) }.\n\
         Definition tree_lock_fns_tbl : list treelockfn := [\n",
    );
    s.push_str(
        &fns.iter()
            .map(|f| {
                format!(
                    "  {{| tl_fn := {}; tl_locks := [{}]; tl_unlocks := [{}]; tl_helpers := [{}] |}}",
                    q(&f.func),
                    f.lock_lines.iter().map(|l| format!("{}%N", l)).collect::<Vec<_>>().join("; "),
                    f.unlock_lines.iter().map(|l| format!("{}%N", l)).collect::<Vec<_>>().join("; "),
                    f.helper_calls.iter().map(|(h, l)| format!("({}, {}%N)", q(h), l)).collect::<Vec<_>>().join("; ")
                )
            })
            .collect::<Vec<_>>()
            .join(";\n"),
    );
    s.push_str("\n].\n\nDefinition relaxed_stores_node_rs : list (string * N * string) := [\n");
    s.push_str(
        &sites
            .iter()
            .filter(|x| x.file == "node.rs" && x.method == "store" && x.ords.first().map(|o| o == "Relaxed").unwrap_or(false))
            .map(|x| format!("  ({}, {}%N, {})", q(&x.func), x.mline, q(&x.field)))
            .collect::<Vec<_>>()
            .join(";\n"),
    );
    s.push_str("\n].\n");
    s
}

pub fn scan_locks(file: &syn::File, fname: &str) -> Vec<LockExt> {
    let mut out = Vec::new();
    for fr in impl_fns(file) {
        let mut v = LockV { file: fname, func: fr.f.sig.ident.to_string(), out: vec![] };
        v.visit_block(&fr.f.block);
        out.extend(v.out);
    }
    out
}

pub fn locks_to_coq(exts: &[LockExt], n_lock_sites: usize) -> String {
    let mut s = String::from(
        "(* GENERATED by /verif/translator from /repo/src. Do not edit. *)\n\
         From Coq Require Import List String NArith.\nImport ListNotations.\nOpen Scope string_scope.\n\n\
         (* one row per `let g = x.lock();`: the calls (name/arity) and blocking sites (lock / park / yield_now /\n\
            spin_loop, with line) in the lexical extent of the guard g *)\n\
         Record lockext := { l_file : string; l_fn : string; l_line : N; l_recv : string; l_guard : string;\n\
           l_explicit_drop : bool; l_end : N; l_calls : list string; l_blocking : list (string * N);\n\
           l_clone_recvs : list string (* what `.clone()` is called on inside the extent *) }.\n\n\
         Definition lock_extents : list lockext := [\n",
    );
    s.push_str(
        &exts
            .iter()
            .map(|e| {
                format!(
                    "  {{| l_file := {}; l_fn := {}; l_line := {}%N; l_recv := {}; l_guard := {}; l_explicit_drop := {}; l_end := {}%N;\n     l_calls := [{}];\n     l_blocking := [{}]; l_clone_recvs := [{}] |}}",
                    q(&e.file),
                    q(&e.func),
                    e.line,
                    q(&e.recv),
                    q(&e.guard),
                    e.explicit_drop,
                    e.end_line,
                    e.calls.iter().map(|c| q(c)).collect::<Vec<_>>().join("; "),
                    e.blocking.iter().map(|(k, l)| format!("({}, {}%N)", q(k), l)).collect::<Vec<_>>().join("; "),
                    e.clone_recvs.iter().map(|c| q(c)).collect::<Vec<_>>().join("; ")
                )
            })
            .collect::<Vec<_>>()
            .join(";\n"),
    );
    s.push_str("\n].\n\n");
    s.push_str(&format!("(* number of `.lock()` call sites in the sources *)\nDefinition n_lock_sites : N := {}%N.\n", n_lock_sites));
    s
}

fn q(s: &str) -> String {
    format!("\"{}\"", s)
}

pub fn to_coq(sites: &[Site], fns: &[FnInfo]) -> String {
    let mut s = String::from(
        "(* GENERATED by /verif/translator from /repo/src. Do not edit. *)\n\
         From Coq Require Import List String NArith.\nImport ListNotations.\nOpen Scope string_scope.\n\n\
         Inductive ord := Relaxed | Acquire | Release | AcqRel | SeqCst.\n\
         Record site := { s_file : string; s_ty : string; s_fn : string; s_line : N; s_field : string;\n\
         \x20 s_method : string; s_ords : list ord }.\n\
         Record fninfo := { f_file : string; f_ty : string; f_name : string; f_line : N;\n\
         \x20 f_calls : list string; f_blocking : list string; f_unparks : N; f_arity : N;\n\
         \x20 f_clone_recvs : list string }.\n\n\
         Definition sites : list site := [\n",
    );
    s.push_str(
        &sites
            .iter()
            .map(|x| {
                format!(
                    "  {{| s_file := {}; s_ty := {}; s_fn := {}; s_line := {}%N; s_field := {}; s_method := {}; s_ords := [{}] |}}",
                    q(&x.file),
                    q(&x.ty),
                    q(&x.func),
                    x.line,
                    q(&x.field),
                    q(&x.method),
                    x.ords.join("; ")
                )
            })
            .collect::<Vec<_>>()
            .join(";\n"),
    );
    s.push_str("\n].\n\nDefinition fns : list fninfo := [\n");
    s.push_str(
        &fns.iter()
            .map(|f| {
                format!(
                    "  {{| f_file := {}; f_ty := {}; f_name := {}; f_line := {}%N; f_calls := [{}]; f_blocking := [{}]; f_unparks := {}%N; f_arity := {}%N; f_clone_recvs := [{}] |}}",
                    q(&f.file),
                    q(&f.ty),
                    q(&f.name),
                    f.line,
                    f.calls.iter().map(|c| q(c)).collect::<Vec<_>>().join("; "),
                    f.blocking.iter().map(|b| q(&b.0)).collect::<Vec<_>>().join("; "),
                    f.unparks,
                    f.arity,
                    f.clone_recvs.iter().map(|c| q(c)).collect::<Vec<_>>().join("; ")
                )
            })
            .collect::<Vec<_>>()
            .join(";\n"),
    );
    s.push_str("\n].\n");
    s
}
