//! Rust integer/boolean expression  ->  Gallina term over Z / bool.
//!
//! Supported fragment (anything else is a hard error, never a silent skip):
//! literals, paths, parentheses, unary `-` `!`, binary `+ - * / << >> | & == != < <= > >= && ||`,
//! `as` casts between integer types (identity; ranges are proved separately), `if/else`
//! expressions, blocks of `let` + tail expression, the method calls `leading_zeros`,
//! `next_power_of_two`, `abs`, `max`, `min`, `saturating_add`, `is_null`-free; the calls
//! `std::cmp::{min,max}`, `core::mem::size_of::<isize|usize>()`, `Self::resize_stamp`, and the
//! macro `load_factor!`.  Atomic read-modify-write calls are rendered through `atomics`, a
//! caller-supplied mapping (used for `add_count`).

use quote::ToTokens;
use std::collections::HashMap;
use syn::{BinOp, Expr, Lit, Stmt, UnOp};

pub struct Env<'a> {
    /// identifiers renamed on output (e.g. `next_index` -> `next_index`)
    pub rename: HashMap<String, String>,
    /// how to print a method call on a receiver that is a `self.<field>` atomic:
    /// (field, method) -> template with `{0}` `{1}` for the arguments
    pub atomics: HashMap<(String, String), String>,
    pub macros: &'a HashMap<String, String>,
    /// `!x` is bitwise on integers (Z.lnot) rather than boolean negation
    pub int_not: bool,
}

impl<'a> Env<'a> {
    pub fn new(macros: &'a HashMap<String, String>) -> Self {
        Env {
            rename: HashMap::new(),
            atomics: HashMap::new(),
            macros,
            int_not: false,
        }
    }
}

fn ident_of_path(p: &syn::Path) -> String {
    p.segments
        .iter()
        .map(|s| s.ident.to_string())
        .collect::<Vec<_>>()
        .join("::")
}

pub fn lit_int(s: &str) -> String {
    let digits: String = s.chars().filter(|c| *c != '_').collect();
    // strip a type suffix
    for suf in [
        "isize", "usize", "i64", "u64", "i32", "u32", "i16", "u16", "i8", "u8",
    ] {
        if let Some(d) = digits.strip_suffix(suf) {
            return d.to_string();
        }
    }
    digits
}

fn self_field(e: &Expr) -> Option<String> {
    if let Expr::Field(f) = e {
        if let Expr::Path(p) = &*f.base {
            if p.path.is_ident("self") {
                if let syn::Member::Named(id) = &f.member {
                    return Some(id.to_string());
                }
            }
        }
    }
    None
}

pub fn expr(e: &Expr, env: &Env<'_>) -> Result<String, String> {
    Ok(match e {
        Expr::Lit(l) => match &l.lit {
            Lit::Int(i) => lit_int(&i.to_string()),
            Lit::Bool(b) => b.value.to_string(),
            other => return Err(format!("unsupported literal {}", other.to_token_stream())),
        },
        Expr::Paren(p) => format!("({})", expr(&p.expr, env)?),
        Expr::Group(g) => expr(&g.expr, env)?,
        Expr::Path(p) => {
            let name = ident_of_path(&p.path);
            let name = name.rsplit("::").next().unwrap().to_string();
            env.rename.get(&name).cloned().unwrap_or(name)
        }
        Expr::Unary(u) => match u.op {
            UnOp::Neg(_) => format!("(- {})", expr(&u.expr, env)?),
            UnOp::Not(_) => {
                if env.int_not {
                    format!("(Z.lnot {})", expr(&u.expr, env)?)
                } else {
                    format!("(negb {})", expr(&u.expr, env)?)
                }
            }
            _ => return Err(format!("unsupported unary {}", e.to_token_stream())),
        },
        Expr::Cast(c) => {
            let ty = c.ty.to_token_stream().to_string();
            match ty.as_str() {
                "isize" | "usize" | "u64" | "i64" => expr(&c.expr, env)?,
                _ => return Err(format!("unsupported cast to {}", ty)),
            }
        }
        Expr::Binary(b) => {
            let l = expr(&b.left, env)?;
            let r = expr(&b.right, env)?;
            match b.op {
                BinOp::Add(_) => format!("({} + {})", l, r),
                BinOp::Sub(_) => format!("({} - {})", l, r),
                BinOp::Mul(_) => format!("({} * {})", l, r),
                BinOp::Div(_) => format!("({} / {})", l, r),
                BinOp::Shl(_) => format!("(wrap64 (Z.shiftl {} {}))", l, r),
                BinOp::Shr(_) => format!("(Z.shiftr {} {})", l, r),
                BinOp::BitOr(_) => format!("(Z.lor {} {})", l, r),
                BinOp::BitAnd(_) => format!("(Z.land {} {})", l, r),
                BinOp::Eq(_) => format!("({} =? {})", l, r),
                BinOp::Ne(_) => format!("(negb ({} =? {}))", l, r),
                BinOp::Lt(_) => format!("({} <? {})", l, r),
                BinOp::Le(_) => format!("({} <=? {})", l, r),
                BinOp::Gt(_) => format!("({} >? {})", l, r),
                BinOp::Ge(_) => format!("({} >=? {})", l, r),
                BinOp::And(_) => format!("({} && {})", l, r),
                BinOp::Or(_) => format!("({} || {})", l, r),
                _ => return Err(format!("unsupported operator in {}", e.to_token_stream())),
            }
        }
        Expr::If(i) => {
            let c = expr(&i.cond, env)?;
            let t = block(&i.then_branch, env)?;
            let el = match &i.else_branch {
                Some((_, e)) => expr(e, env)?,
                None => return Err("if without else in expression position".into()),
            };
            format!("(if {} then {} else {})", c, t, el)
        }
        Expr::Block(b) => block(&b.block, env)?,
        Expr::MethodCall(m) => {
            let name = m.method.to_string();
            if let Some(field) = self_field(&m.receiver) {
                if let Some(tpl) = env.atomics.get(&(field.clone(), name.clone())) {
                    let mut out = tpl.clone();
                    for (i, a) in m.args.iter().enumerate() {
                        let s = match expr(a, env) {
                            Ok(s) => s,
                            Err(_) => String::from("_"),
                        };
                        out = out.replace(&format!("{{{}}}", i), &s);
                    }
                    return Ok(out);
                }
                if name == "len" && m.args.is_empty() {
                    // self.len() and friends: left symbolic
                    return Ok(format!("{}_len", field));
                }
            }
            let recv = expr(&m.receiver, env)?;
            let args: Result<Vec<_>, _> = m.args.iter().map(|a| expr(a, env)).collect();
            let args = args?;
            match (name.as_str(), args.len()) {
                ("leading_zeros", 0) => format!("(lzcnt64 {})", recv),
                ("next_power_of_two", 0) => format!("(next_pow2 {})", recv),
                ("abs", 0) => format!("(Z.abs {})", recv),
                ("max", 1) => format!("(Z.max {} {})", recv, args[0]),
                ("min", 1) => format!("(Z.min {} {})", recv, args[0]),
                ("saturating_add", 1) => format!("(Z.min ({} + {}) (2 ^ 64 - 1))", recv, args[0]),
                ("len", 0) => format!("(len_of {})", recv),
                _ => return Err(format!("unsupported method call {}", e.to_token_stream())),
            }
        }
        Expr::Call(c) => {
            let f = c.func.to_token_stream().to_string().replace(' ', "");
            let args: Result<Vec<_>, _> = c.args.iter().map(|a| expr(a, env)).collect();
            let args = args?;
            match f.as_str() {
                "std::cmp::min" | "cmp::min" => format!("(Z.min {} {})", args[0], args[1]),
                "std::cmp::max" | "cmp::max" => format!("(Z.max {} {})", args[0], args[1]),
                "core::mem::size_of::<isize>"
                | "std::mem::size_of::<isize>"
                | "core::mem::size_of::<usize>"
                | "std::mem::size_of::<usize>" => "8".to_string(),
                "Self::resize_stamp" => format!("(resize_stamp {})", args[0]),
                _ => return Err(format!("unsupported call {}", e.to_token_stream())),
            }
        }
        Expr::Macro(m) => {
            let name = ident_of_path(&m.mac.path);
            if env.macros.contains_key(&name) {
                let arg: Expr = syn::parse2(m.mac.tokens.clone())
                    .map_err(|e| format!("macro argument: {}", e))?;
                format!("({} {})", name, expr(&arg, env)?)
            } else {
                return Err(format!("unsupported macro {}", name));
            }
        }
        Expr::Reference(r) => expr(&r.expr, env)?,
        _ => return Err(format!("unsupported expression {}", e.to_token_stream())),
    })
}

pub fn block(b: &syn::Block, env: &Env<'_>) -> Result<String, String> {
    let mut lets = Vec::new();
    let mut tail = None;
    for (i, s) in b.stmts.iter().enumerate() {
        match s {
            Stmt::Local(l) => {
                let name = match &l.pat {
                    syn::Pat::Ident(p) => p.ident.to_string(),
                    syn::Pat::Type(t) => match &*t.pat {
                        syn::Pat::Ident(p) => p.ident.to_string(),
                        _ => return Err("unsupported let pattern".into()),
                    },
                    _ => return Err("unsupported let pattern".into()),
                };
                let init = l.init.as_ref().ok_or("let without initialiser")?;
                lets.push((name, expr(&init.expr, env)?));
            }
            Stmt::Expr(e, None) if i + 1 == b.stmts.len() => tail = Some(expr(e, env)?),
            Stmt::Expr(_, _) | Stmt::Item(_) | Stmt::Macro(_) => {
                // comments are not statements; anything else in a value block is unsupported
                return Err(format!(
                    "unsupported statement in value block: {}",
                    s.to_token_stream()
                ));
            }
        }
    }
    let mut out = tail.ok_or("block without tail expression")?;
    for (n, v) in lets.into_iter().rev() {
        out = format!("(let {} := {} in {})", n, v, out);
    }
    Ok(out)
}
