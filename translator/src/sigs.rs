//! GenSig.v / GenBounds.v: lifetimes of borrow-returning public methods, and the Send/Sync
//! bounds under which each public method is available.

use crate::find::*;
use quote::ToTokens;
use syn::visit::Visit;

pub struct SigRow {
    pub file: String,
    pub ty: String,
    pub trait_: String,
    pub name: String,
    pub line: usize,
    pub self_lt: String,          // "" = no self, "_" = elided, else the named lifetime
    pub guard_lts: Vec<String>,   // lifetime of each `&'x Guard` parameter ("_" = elided)
    pub ret_lts: Vec<String>,     // lifetimes mentioned in the return type ("_" = elided/anonymous)
    pub outlives: Vec<(String, String)>, // declared bounds 'a: 'b (a outlives b), of the method and its impl
    pub q_sized: bool,            // a lookup-key parameter `Q` is declared without `?Sized`
    pub key_lts: Vec<String>,     // named lifetimes carried by the parameters that are neither `self` nor a guard
    pub ret: String,
    pub returns_borrow: bool,
    pub has_static_bound: bool,
}

pub struct BoundRow {
    pub file: String,
    pub ty: String,
    pub trait_: String,
    pub name: String,
    pub line: usize,
    pub public: bool,
    pub k_send: bool,
    pub k_sync: bool,
    pub v_send: bool,
    pub v_sync: bool,
    pub has_v: bool,
}

struct Lts(Vec<String>, bool);
impl<'ast> Visit<'ast> for Lts {
    fn visit_lifetime(&mut self, l: &'ast syn::Lifetime) {
        self.0.push(l.ident.to_string());
    }
    fn visit_type_reference(&mut self, r: &'ast syn::TypeReference) {
        self.1 = true;
        if r.lifetime.is_none() {
            self.0.push("_".into());
        }
        syn::visit::visit_type_reference(self, r);
    }
}

fn bounds_of(generics: &syn::Generics, param: &str) -> (bool, bool, bool) {
    // (send, sync, static)
    let mut send = false;
    let mut sync = false;
    let mut st = false;
    let mut scan = |bounds: &syn::punctuated::Punctuated<syn::TypeParamBound, syn::token::Plus>| {
        for b in bounds {
            let t = b.to_token_stream().to_string();
            if t == "Send" {
                send = true;
            }
            if t == "Sync" {
                sync = true;
            }
            if t.contains("'static") || t == "'static" {
                st = true;
            }
        }
    };
    for p in &generics.params {
        if let syn::GenericParam::Type(tp) = p {
            if tp.ident == param {
                scan(&tp.bounds);
            }
        }
    }
    if let Some(w) = &generics.where_clause {
        for pred in &w.predicates {
            if let syn::WherePredicate::Type(pt) = pred {
                if pt.bounded_ty.to_token_stream().to_string() == param {
                    scan(&pt.bounds);
                }
            }
        }
    }
    (send, sync, st)
}

/// is the type parameter `param` declared here, and if so, is it `?Sized`?
fn maybe_sized(generics: &syn::Generics, param: &str) -> (bool, bool) {
    let mut declared = false;
    let mut relaxed = false;
    let mut scan = |bounds: &syn::punctuated::Punctuated<syn::TypeParamBound, syn::token::Plus>| {
        for b in bounds {
            if b.to_token_stream().to_string().replace(' ', "") == "?Sized" {
                relaxed = true;
            }
        }
    };
    for p in &generics.params {
        if let syn::GenericParam::Type(tp) = p {
            if tp.ident == param {
                declared = true;
                scan(&tp.bounds);
            }
        }
    }
    if let Some(w) = &generics.where_clause {
        for pred in &w.predicates {
            if let syn::WherePredicate::Type(pt) = pred {
                if pt.bounded_ty.to_token_stream().to_string() == param {
                    scan(&pt.bounds);
                }
            }
        }
    }
    (declared, relaxed)
}

fn outlives_of(generics: &syn::Generics, out: &mut Vec<(String, String)>) {
    for p in &generics.params {
        if let syn::GenericParam::Lifetime(lp) = p {
            for b in &lp.bounds {
                out.push((lp.lifetime.ident.to_string(), b.ident.to_string()));
            }
        }
    }
    if let Some(w) = &generics.where_clause {
        for pred in &w.predicates {
            if let syn::WherePredicate::Lifetime(pl) = pred {
                for b in &pl.bounds {
                    out.push((pl.lifetime.ident.to_string(), b.ident.to_string()));
                }
            }
        }
    }
}

pub fn scan(file: &syn::File, fname: &str, types: &[&str]) -> (Vec<SigRow>, Vec<BoundRow>) {
    let mut sigs = Vec::new();
    let mut bounds = Vec::new();
    for fr in impl_fns(file) {
        let ty = fr.self_ty.trim_start_matches('&').to_string();
        if !types.contains(&ty.as_str()) {
            continue;
        }
        let f = fr.f;
        let public = matches!(f.vis, syn::Visibility::Public(_)) || fr.trait_.is_some();
        let imp = fr.imp.unwrap();
        // key / value parameter names of this impl: first two type params of the self type
        let (kname, vname) = match ty.as_str() {
            "HashSet" | "HashSetRef" => ("T", ""),
            _ => ("K", "V"),
        };
        let has_param = |n: &str| imp.generics.params.iter().any(|p| matches!(p, syn::GenericParam::Type(t) if t.ident == n));
        let kname = if has_param("K") { "K" } else if has_param("T") { "T" } else { kname };
        let vname = if has_param("V") { "V" } else { "" };
        let (ks1, ky1, kst1) = bounds_of(&imp.generics, kname);
        let (ks2, ky2, kst2) = bounds_of(&f.sig.generics, kname);
        let (vs1, vy1, vst1) = if vname.is_empty() { (false, false, false) } else { bounds_of(&imp.generics, vname) };
        let (vs2, vy2, vst2) = if vname.is_empty() { (false, false, false) } else { bounds_of(&f.sig.generics, vname) };
        let (_, _, qst) = bounds_of(&f.sig.generics, "Q");
        bounds.push(BoundRow {
            file: fname.into(),
            ty: ty.clone(),
            trait_: fr.trait_.clone().unwrap_or_default(),
            name: f.sig.ident.to_string(),
            line: line_of(&f.sig),
            public,
            k_send: ks1 || ks2,
            k_sync: ky1 || ky2,
            v_send: vs1 || vs2,
            v_sync: vy1 || vy2,
            has_v: !vname.is_empty(),
        });
        if !public {
            continue;
        }
        // signature lifetimes
        let mut self_lt = String::new();
        let mut guard_lts = Vec::new();
        let mut key_lts: Vec<String> = Vec::new();
        for a in &f.sig.inputs {
            match a {
                syn::FnArg::Receiver(r) => {
                    self_lt = match &r.reference {
                        Some((_, Some(l))) => l.ident.to_string(),
                        Some((_, None)) => "_".into(),
                        None => "owned".into(),
                    };
                }
                syn::FnArg::Typed(t) => {
                    let tt = t.ty.to_token_stream().to_string().replace(' ', "");
                    if tt.starts_with('&') && tt.contains("Guard<") {
                        if let syn::Type::Reference(r) = &*t.ty {
                            guard_lts.push(r.lifetime.as_ref().map(|l| l.ident.to_string()).unwrap_or("_".into()));
                        }
                    } else {
                        let mut v = Lts(vec![], false);
                        v.visit_type(&t.ty);
                        key_lts.extend(v.0.into_iter().filter(|l| l != "_"));
                    }
                }
            }
        }
        let (ret_lts, returns_borrow, ret) = match &f.sig.output {
            syn::ReturnType::Default => (vec![], false, String::new()),
            syn::ReturnType::Type(_, t) => {
                let mut v = Lts(vec![], false);
                v.visit_type(t);
                let txt = t.to_token_stream().to_string();
                let borrow = v.1 || !v.0.is_empty();
                (v.0, borrow, txt)
            }
        };
        let mut outlives = Vec::new();
        outlives_of(&imp.generics, &mut outlives);
        outlives_of(&f.sig.generics, &mut outlives);
        let (qd1, qr1) = maybe_sized(&imp.generics, "Q");
        let (qd2, qr2) = maybe_sized(&f.sig.generics, "Q");
        sigs.push(SigRow {
            q_sized: (qd1 || qd2) && !(qr1 || qr2),
            key_lts,
            outlives,
            file: fname.into(),
            ty,
            trait_: fr.trait_.clone().unwrap_or_default(),
            name: f.sig.ident.to_string(),
            line: line_of(&f.sig),
            self_lt,
            guard_lts,
            ret_lts,
            ret,
            returns_borrow,
            has_static_bound: kst1 || kst2 || vst1 || vst2 || qst,
        });
    }
    (sigs, bounds)
}

/// `unsafe impl Send/Sync for X where ...` items
pub fn unsafe_impls(file: &syn::File, fname: &str) -> Vec<BoundRow> {
    let mut out = Vec::new();
    for it in &file.items {
        if let syn::Item::Impl(imp) = it {
            if imp.unsafety.is_none() {
                continue;
            }
            let tr = match &imp.trait_ {
                Some((_, p, _)) => p.segments.last().unwrap().ident.to_string(),
                None => continue,
            };
            if tr != "Send" && tr != "Sync" {
                continue;
            }
            let (ks, ky, _) = bounds_of(&imp.generics, "K");
            let (vs, vy, _) = bounds_of(&imp.generics, "V");
            out.push(BoundRow {
                file: fname.into(),
                ty: ty_name(&imp.self_ty),
                trait_: tr.clone(),
                name: format!("unsafe impl {}", tr),
                line: line_of(imp),
                public: true,
                k_send: ks,
                k_sync: ky,
                v_send: vs,
                v_sync: vy,
                has_v: true,
            });
        }
    }
    out
}

fn q(s: &str) -> String {
    format!("\"{}\"", s.replace('"', "'"))
}

pub fn sig_coq(rows: &[SigRow]) -> String {
    let mut s = String::from(
        "(* GENERATED by /verif/translator from /repo/src. Do not edit. *)\n\
         From Coq Require Import List String NArith.\nImport ListNotations.\nOpen Scope string_scope.\n\n\
         Record sigrow := { g_file : string; g_ty : string; g_trait : string; g_name : string; g_line : N;\n\
         \x20 g_self : string; g_guards : list string; g_ret_lts : list string;\n\
         \x20 g_outlives : list (string * string); g_q_sized : bool; g_key_lts : list string; g_ret : string;\n\
         \x20 g_borrow : bool; g_static : bool }.\n\nDefinition sigs : list sigrow := [\n",
    );
    s.push_str(
        &rows
            .iter()
            .map(|r| {
                format!(
                    "  {{| g_file := {}; g_ty := {}; g_trait := {}; g_name := {}; g_line := {}%N; g_self := {}; g_guards := [{}]; g_ret_lts := [{}]; g_outlives := [{}]; g_q_sized := {}; g_key_lts := [{}]; g_ret := {}; g_borrow := {}; g_static := {} |}}",
                    q(&r.file), q(&r.ty), q(&r.trait_), q(&r.name), r.line, q(&r.self_lt),
                    r.guard_lts.iter().map(|x| q(x)).collect::<Vec<_>>().join("; "),
                    r.ret_lts.iter().map(|x| q(x)).collect::<Vec<_>>().join("; "),
                    r.outlives.iter().map(|(a, b)| format!("({}, {})", q(a), q(b))).collect::<Vec<_>>().join("; "),
                    r.q_sized,
                    r.key_lts.iter().map(|x| q(x)).collect::<Vec<_>>().join("; "),
                    q(&r.ret), r.returns_borrow, r.has_static_bound
                )
            })
            .collect::<Vec<_>>()
            .join(";\n"),
    );
    s.push_str("\n].\n");
    s
}

pub fn bounds_coq(rows: &[BoundRow]) -> String {
    let mut s = String::from(
        "(* GENERATED by /verif/translator from /repo/src. Do not edit. *)\n\
         From Coq Require Import List String NArith.\nImport ListNotations.\nOpen Scope string_scope.\n\n\
         Record boundrow := { b_file : string; b_ty : string; b_trait : string; b_name : string; b_line : N;\n\
         \x20 b_pub : bool; b_k_send : bool; b_k_sync : bool; b_v_send : bool; b_v_sync : bool; b_has_v : bool }.\n\n\
         Definition bounds : list boundrow := [\n",
    );
    s.push_str(
        &rows
            .iter()
            .map(|r| {
                format!(
                    "  {{| b_file := {}; b_ty := {}; b_trait := {}; b_name := {}; b_line := {}%N; b_pub := {}; b_k_send := {}; b_k_sync := {}; b_v_send := {}; b_v_sync := {}; b_has_v := {} |}}",
                    q(&r.file), q(&r.ty), q(&r.trait_), q(&r.name), r.line, r.public, r.k_send, r.k_sync, r.v_send, r.v_sync, r.has_v
                )
            })
            .collect::<Vec<_>>()
            .join(";\n"),
    );
    s.push_str("\n].\n");
    s
}
