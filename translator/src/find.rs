//! Syntactic locators over `syn` trees.

use quote::ToTokens;
use syn::visit::{self, Visit};
use syn::{Block, Expr, ExprAssign, ExprIf, ExprMethodCall, ImplItemFn, ItemImpl, Local};

pub struct FnRef<'a> {
    pub imp: Option<&'a ItemImpl>,
    pub self_ty: String,
    pub trait_: Option<String>,
    pub f: &'a ImplItemFn,
}

pub fn ty_name(t: &syn::Type) -> String {
    match t {
        syn::Type::Path(p) => p
            .path
            .segments
            .last()
            .map(|s| s.ident.to_string())
            .unwrap_or_default(),
        syn::Type::Reference(r) => format!("&{}", ty_name(&r.elem)),
        _ => t.to_token_stream().to_string(),
    }
}

pub fn impl_fns(file: &syn::File) -> Vec<FnRef<'_>> {
    let mut out = Vec::new();
    for item in &file.items {
        if let syn::Item::Impl(imp) = item {
            let self_ty = ty_name(&imp.self_ty);
            let trait_ = imp
                .trait_
                .as_ref()
                .map(|(_, p, _)| p.segments.last().unwrap().ident.to_string());
            for it in &imp.items {
                if let syn::ImplItem::Fn(f) = it {
                    out.push(FnRef {
                        imp: Some(imp),
                        self_ty: self_ty.clone(),
                        trait_: trait_.clone(),
                        f,
                    });
                }
            }
        }
    }
    out
}

pub fn find_fn<'a>(file: &'a syn::File, self_ty: &str, name: &str) -> Result<FnRef<'a>, String> {
    let mut v: Vec<_> = impl_fns(file)
        .into_iter()
        .filter(|f| f.self_ty == self_ty && f.f.sig.ident == name && f.trait_.is_none())
        .collect();
    if v.len() != 1 {
        return Err(format!(
            "expected exactly one fn {}::{} but found {}",
            self_ty,
            name,
            v.len()
        ));
    }
    Ok(v.pop().unwrap())
}

pub fn line_of<T: syn::spanned::Spanned>(t: &T) -> usize {
    t.span().start().line
}

pub fn toks<T: ToTokens>(t: &T) -> String {
    t.to_token_stream().to_string()
}

/* ---- collectors ---- */

#[derive(Default)]
pub struct Collect<'a> {
    pub locals: Vec<&'a Local>,
    pub ifs: Vec<&'a ExprIf>,
    pub calls: Vec<&'a ExprMethodCall>,
    pub assigns: Vec<&'a ExprAssign>,
    pub matches: Vec<&'a syn::ExprMatch>,
    pub binaries: Vec<&'a syn::ExprBinary>,
    pub fncalls: Vec<&'a syn::ExprCall>,
    pub macros: Vec<&'a syn::ExprMacro>,
    pub stmt_macros: Vec<&'a syn::StmtMacro>,
    pub whiles: Vec<&'a syn::ExprWhile>,
}

impl<'a> Visit<'a> for Collect<'a> {
    fn visit_local(&mut self, l: &'a Local) {
        self.locals.push(l);
        visit::visit_local(self, l);
    }
    fn visit_expr_if(&mut self, e: &'a ExprIf) {
        self.ifs.push(e);
        visit::visit_expr_if(self, e);
    }
    fn visit_expr_method_call(&mut self, e: &'a ExprMethodCall) {
        self.calls.push(e);
        visit::visit_expr_method_call(self, e);
    }
    fn visit_expr_assign(&mut self, e: &'a ExprAssign) {
        self.assigns.push(e);
        visit::visit_expr_assign(self, e);
    }
    fn visit_expr_match(&mut self, e: &'a syn::ExprMatch) {
        self.matches.push(e);
        visit::visit_expr_match(self, e);
    }
    fn visit_expr_binary(&mut self, e: &'a syn::ExprBinary) {
        self.binaries.push(e);
        visit::visit_expr_binary(self, e);
    }
    fn visit_expr_call(&mut self, e: &'a syn::ExprCall) {
        self.fncalls.push(e);
        visit::visit_expr_call(self, e);
    }
    fn visit_expr_macro(&mut self, e: &'a syn::ExprMacro) {
        self.macros.push(e);
        visit::visit_expr_macro(self, e);
    }
    fn visit_stmt_macro(&mut self, e: &'a syn::StmtMacro) {
        self.stmt_macros.push(e);
        visit::visit_stmt_macro(self, e);
    }
    fn visit_expr_while(&mut self, e: &'a syn::ExprWhile) {
        self.whiles.push(e);
        visit::visit_expr_while(self, e);
    }
}

pub fn collect_block(b: &Block) -> Collect<'_> {
    let mut c = Collect::default();
    c.visit_block(b);
    c
}

pub fn collect_expr(e: &Expr) -> Collect<'_> {
    let mut c = Collect::default();
    c.visit_expr(e);
    c
}

pub fn local_name(l: &Local) -> Option<String> {
    match &l.pat {
        syn::Pat::Ident(p) => Some(p.ident.to_string()),
        syn::Pat::Type(t) => match &*t.pat {
            syn::Pat::Ident(p) => Some(p.ident.to_string()),
            _ => None,
        },
        _ => None,
    }
}

/// the initialiser of the first `let <name> = ...` in the block
pub fn local_init<'a>(c: &Collect<'a>, name: &str) -> Result<&'a Expr, String> {
    for l in &c.locals {
        if local_name(l).as_deref() == Some(name) {
            if let Some(init) = &l.init {
                return Ok(&init.expr);
            }
        }
    }
    Err(format!("no `let {} = ...` found", name))
}

/// all initialisers of `let <name> = ...`
pub fn local_inits<'a>(c: &Collect<'a>, name: &str) -> Vec<&'a Expr> {
    c.locals
        .iter()
        .filter(|l| local_name(l).as_deref() == Some(name))
        .filter_map(|l| l.init.as_ref().map(|i| &*i.expr))
        .collect()
}

/// the unique `if` whose condition's token text contains all of `needles`
pub fn if_with<'a>(c: &Collect<'a>, needles: &[&str]) -> Result<&'a ExprIf, String> {
    let v: Vec<_> = c
        .ifs
        .iter()
        .filter(|i| {
            let t = toks(&i.cond);
            needles.iter().all(|n| t.contains(n))
        })
        .collect();
    if v.len() != 1 {
        return Err(format!(
            "expected exactly one `if` with {:?}, found {}",
            needles,
            v.len()
        ));
    }
    Ok(v[0])
}

/// method calls `self.<field>.<method>(..)`
pub fn self_field_calls<'a>(
    c: &Collect<'a>,
    field: &str,
    method: &str,
) -> Vec<&'a ExprMethodCall> {
    c.calls
        .iter()
        .copied()
        .filter(|m| {
            m.method == method && {
                let r = toks(&m.receiver).replace(' ', "");
                r == format!("self.{}", field)
            }
        })
        .collect()
}
