#!/bin/bash
# keep_seed.sh <Cxx> <detected_by text> : copy a confirmed mutant into /verif/seeded/<Cxx>-m1
p=$1; det=$2
d=/verif/seeded/$p-m1
mkdir -p $d
cp /tmp/mut/$p-out/patch.diff $d/patch.diff
cp /tmp/mut/$p-out/demo.rs $d/demo.rs 2>/dev/null
python3 - "$p" "$det" <<'PY'
import json,sys
p,det=sys.argv[1],sys.argv[2]
try: m=json.load(open(f"/tmp/mut/{p}-out/meta.json"))
except Exception: m={"property":p}
conf=[l for l in open("/tmp/mut/confirm.log") if l.startswith(p+" |")]
m["confirmed_by_framework_author"]=conf[-1].strip() if conf else "not re-run"
m["detected_by"]=det
json.dump(m,open(f"/verif/seeded/{p}-m1/meta.json","w"),indent=1)
PY
