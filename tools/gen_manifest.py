#!/usr/bin/env python3
"""Regenerates /verif/MANIFEST.json from the table below (the single place where claims are listed)."""
import json, os, subprocess
ROOT = os.path.dirname(os.path.dirname(os.path.abspath(__file__)))
props = [json.loads(l) for l in open(os.path.join(ROOT, "properties.jsonl"))]
hooks = subprocess.run(["git", "-C", "/repo", "log", "--format=%h %s"], capture_output=True, text=True).stdout.split("\n")
hook_commits = [l.split()[0] for l in hooks if "verif hooks" in l]

CLAIMS = {
 "C12": dict(
   text="Coq theorem over the call graph and blocking-site table regenerated from the source on every run (resolution by method name and arity, an over-approximation): from get, get_key_value, contains_key, iteration (iter/keys/values and every next), len, is_empty, equality, the set relations and the facade versions, no Mutex::lock, park, yield_now or spin_loop site is reachable (75 functions in the cone; the graph demonstrably sees the writers' locks). Semantic side on the implementation: for 14 writer scenarios the writer is suspended after each of its shared-memory operations in turn (inside bin critical sections, inside tree restructuring, mid-migration of a bin, mid-resize) and every read operation is run alone under the scheduler: it must complete within a step bound without acquiring a lock; the before-lock hook firing inside any read of any scheduled run is also a violation.",
   note="the boundedness of a solo read from every reachable state is established by exhaustive suspension points of the listed scenarios, not yet by a theorem over the protocol model (planned with BinProto S1: lists stay acyclic at every intermediate state)",
   tech="Coq proof over translator-regenerated call graph (vm_compute reachability) + exhaustive writer-suspension runs under the deterministic scheduler", ref="DESIGN.md 5/C12"),
 "C15": dict(
   text="Coq theorems: (1) over the table of all atomic-operation sites regenerated from the source (function, field, kind, orderings): every site respects its discipline - publishing stores/swaps/CASes are at least Release, integer-cell loads at least Acquire, pointer cells are read through Guard::protect (SeqCst), weaker orderings occur only at exempted (function, field) pairs classified Private / UnderTreeWriteLock / UnderBinLock / Exclusive / Diagnostic; the tree-lock and bin edges carry release/acquire; (2) in a release/acquire fragment (po, rf, sw from release-write/acquire-read or mutex hand-over, hb = transitive closure; premises are explicit hypotheses of the theorem, not axioms) initialisation happens-before the final access along every publication path with any number of intermediate copies. Translator validation on every run: each atomic operation executed by a recorded workload must match a row of the static table (kind and orderings).",
   note="partial by nature: x86 cannot exhibit a missing edge, so a violation is reported as the failing obligation (no-failing-input-found); the assignment of exemptions to (function, field) pairs is hand-made and justified by the lock discipline (BinProto/TreeLock) and the run-time behaviour, not proved; no SC-fence reasoning; seize's protect() loading SeqCst is read from seize 0.3.3 and trusted; candidate K1 is outside the fragment",
   tech="Coq proof over translator-regenerated ordering table + axiomatic release/acquire lemma; dynamic validation of the table", ref="DESIGN.md 5/C15"),
 "C01": dict(
   text="(1) The per-key sequential specification, the definition of linearizability (real-time-respecting legal permutation) and a Wing-Gong checker lin_b are Coq definitions; lin_b is proved sound (Qed). Every history the implementation produces in the scheduled runs is exported and certified by evaluating lin_b inside Coq (vm_compute), together with the final read of every key, so each explored execution is kernel-certified linearizable - independently of the harness's own Rust checker, whose verdicts must agree. (2) The unbounded statement - every schedule of every program is linearizable - is a theorem over the executable list-bin protocol model Model/BinProto.v (one step per shared-memory operation, any hash function, table size, thread count); its proof (Proofs/BinProtoProofs.v) is in progress, see evidence for the theorems currently pinned. Implementation side: programs over all eight per-key operations, both facades, map of 1/2/16/64 bins, constant / same-bin / identity hashers, racing multi-helper resizes and tree-bin restructuring, preemption at every shared operation including inside critical sections.",
   note="the model theorem covers stage S1 (list bins, no resize); resizes and tree bins are covered by the certified histories of the implementation only; linearizability is checked per key (locality); sequentially consistent interleavings only (see C15)",
   tech="Coq: sound linearizability checker evaluated on every explored implementation history + protocol-model theorem (in progress); deterministic-scheduler exploration of the real crate", ref="DESIGN.md 5/C01, appendix D"),
 "C08": dict(
   text="Coq theorems: the specification of compute_if_present used by the linearizability checker is an atomic read-modify-write (the callback value is the value current at the linearization point, its result replaces exactly that value; kapply_compute), n increments linearized in any order from c end at c+n (no lost update), and the checker is sound; every explored history of the implementation (counter programs with 2-4 threads, compute racing insert/remove/resize, list and tree bins) is certified by lin_b inside Coq; the harness additionally counts callback invocations per call (at most once, exactly once if present).",
   note="unbounded-schedule statement rests on the BinProto theorem (stage S1, in progress); tree-bin and resize cases are covered by certified histories only",
   tech="Coq proof (spec-level lemmas + sound checker evaluated on implementation histories) + scheduler exploration", ref="DESIGN.md 5/C08"),
 "C13": dict(
   text="Coq theorems: in the specification a retain removal is a compare-and-remove (takes effect only if the value is still the inspected one, otherwise nothing changes) and a retain_force removal always removes; checker soundness. Every explored history of the implementation in which retain/retain_force race inserts, replacements, computes and removals of the inspected keys is certified linearizable against that specification inside Coq; the predicate's (key, value, verdict) log is what the conditional removals are built from.",
   note="the interval of a conditional removal is taken from the predicate call to the next predicate call (or the end of retain); unbounded-schedule statement rests on the protocol-model theorem",
   tech="Coq proof (spec lemmas + sound checker on implementation histories) + scheduler exploration", ref="DESIGN.md 5/C13"),
 "C11": dict(
   text="Coq theorems (Proofs/TreeLockProofs.v) over an executable step-by-step model of the tree-bin read-write lock (lock_root/contended_lock/unlock_root, TreeBin::find's read-lock attempt; sticky park tokens), for any number of readers, writer rounds and ANY schedule: mutual exclusion of tree restructuring and tree readers, no lost wake-up (a parked writer without a token always has a reader on its way to unpark it; the window between the WAITER CAS and the waiter swap is covered), deadlock freedom (some unfinished thread is always enabled), the blind-spin branch is unreachable, and termination: an explicit measure strictly decreased by every step of an enabled thread, hence a bound on all runs. The model's bit tests and CAS operands are the expressions regenerated from node.rs (obligation C11_model_uses_code_tests). The implementation side: scheduled runs of the real crate (hooks at every shared operation, lock acquisition, park/unpark, spin) report deadlock (all unfinished threads blocked) or step-limit (livelock) verdicts.",
   note="sequentially consistent model (candidate K1 - Acquire re-read after the SeqCst waiter swap - is outside it); bin-mutex ordering (at most one bin lock held) and the init_table spin are covered by the scheduler verdicts only, not by a theorem yet; liveness is stated for finite programs",
   tech="Coq proof (inductive invariant + termination measure over an executable lock model) + scheduler-verdict search on the implementation", ref="DESIGN.md 5/C11, appendix E"),
 "C18": dict(
   text="Coq theorems over event sequences regenerated from map.rs (for compute_if_present, retain, retain_force: lock-guard bindings, callback invocations, writes, releases in source order): inside a critical section the callback precedes every write, lock guards are RAII locals never forgotten, retain's predicate runs outside any lock; plus model lemmas (the callback is shown the current value with nothing modified; an interrupted retain has processed exactly a prefix). Fault injection on the implementation: a panic in the callback / at the i-th predicate call / in iterator-consuming code, then reference comparison, inspector lock probe, a write to every bin from a second thread under a watchdog, and further operations.",
   note="the translator's classification of statements as writes/locks is syntactic (method names); unwinding semantics of RAII guards is Rust's",
   tech="Coq proof over translator-regenerated critical-section event table + fault-injection differential", ref="DESIGN.md 5/C18"),
 "C19": dict(
   text="Coq theorems at the level of the abstract map: deserialisation (insert entries one by one) is total on every entry list and a repeated key keeps the last value; serialise-then-deserialise returns the same key->value map for every duplicate-free listing; for every permutation (interleaving) of the supplied items, parallel extend/collect yields old keys + supplied keys with each supplied key mapped to one of its supplied values; and, over the API table regenerated from serde_impls.rs, the visitors contain no panicking macro. The serde format layer and rayon scheduling are glue outside the model and are covered by direct differential runs against std collections (round trips, generated documents with repeats/malformations under catch_unwind, thread pools 1/2/4/8).",
   note="the link from 'some interleaving of inserts' to the real concurrent execution is C01 (linearizability); serde_json and rayon themselves are trusted",
   tech="Coq proof (list-fold lemmas over the abstract map, regenerated visitor table) + differential runs through serde_json/rayon", ref="DESIGN.md 5/C19"),
 "C06": dict(
   text="Coq theorems (Proofs/RBProofs.v, all Qed, closed under the global context) over the tree-bin model: TreeBin::new, find_or_put_tree_val, value replacement and remove_tree_node (CLR insertion and deletion fix-up, written over a zipper one case per branch of the Rust loops) preserve: search order by (hash,key), black root, no red-red, equal black height, and next-list = tree node set; tree lookup = list lookup; 2^height <= (n+1)^2 and 2^(key comparisons of a lookup) <= (n+1)^4, for all trees and keys. The model is tied to node.rs on every run by step-wise structural correspondence: the model operation applied to the implementation's dumped pre-state must reproduce the dumped post-state with identical shape, colours and list order (tree-heavy generator: ascending/descending/zig-zag/random fills and drains, colliding and same-bin hashes); pointer-level parent/prev links are re-derived from every dump; Eq/Ord calls of real lookups are counted against 4*log2(n+1).",
   note="parent/prev pointer consistency is checked on dumps, not proved; the statement 'bins of >= 8 nodes in tables >= 64 are trees (or lists of <= 10 nodes right after growth)' is checked on every dump by the comparison counter, its proof over all sequences belongs to the sequential refinement",
   tech="Coq proof (red-black invariants by induction over zipper paths) + step-wise structural differential against the implementation", ref="DESIGN.md 5/C06"),
 "C09": dict(
   text="Coq theorem over the API table regenerated from the source (every public guard-taking entry point of HashMap/HashSet and every facade method forwarding a with_guard guard starts with check_guard or only forwards the guard to such methods; finite table, vm_compute + forallb_forall), plus exhaustive dynamic validation: every entry point and guard position is called with a guard of a foreign collector on empty and populated collections (must panic before any protected load or retire through that guard, map unchanged).",
   note="trusted: the translator's reading of 'first statement is self.check_guard(g)' and of delegation; receiver/guard pairing of two-guard methods is validated dynamically only; seize's Collector::ptr_eq",
   tech="Coq proof over regenerated finite API table + exhaustive foreign-guard call corpus", ref="DESIGN.md 5/C09"),
 "C14": dict(
   text="Coq theorems over the arithmetic regenerated from map.rs (capacity rounding holds c entries for all 0<c<=2^29, power of two <= 2^30, both rounding copies agree, post-resize threshold is 3/4 of the doubled length, the count a removing caller compares with the threshold is the stored count, removal call sites pass no resize hint) for all inputs; tied to the code by the translator on every run, by exhaustive comparison of the regenerated rounding/stamps/constants with the implementation, and by the step-wise structural correspondence of the sequential model; directed finders on the implementation (fit, growth exactly when due, removals at the threshold).",
   note="operation-sequence part (table never shrinks, growth only when due over all sequences) rests on the sequential refinement proof (Proofs/SeqProofs.v) as far as it is completed; see evidence",
   tech="Coq proof (lia/Z arithmetic over translator-regenerated expressions) + differential correspondence", ref="DESIGN.md 5/C14"),
}

m = {
 "version": 1,
 "setup_cmd": "./check setup",
 "hooks": {"guard": "flurry_verif",
           "enable": "RUSTFLAGS=\"--cfg flurry_verif\" (set in /verif/harness/.cargo/config.toml); the harness crate has a path dependency on /repo",
           "baseline_off_cmd": "cd /repo && cargo nextest run --workspace --no-fail-fast --test-threads 8 --offline",
           "source_commits": hook_commits[::-1], "add_only": True},
 "engines": [
   {"name": "coq", "path": "coq/", "serves_properties": [], "kind_free_text": "Coq 8.16.1 development: models (Model/), proofs (Proofs/), one Props/Cxx.v per property, tables regenerated from the source (Gen/)"},
   {"name": "translator", "path": "translator/", "serves_properties": [], "kind_free_text": "Rust+syn translator /repo/src -> coq/Gen/*.v, re-run by every check"},
   {"name": "harness", "path": "harness/", "serves_properties": [], "kind_free_text": "Rust harness built against /repo with hooks on: deterministic scheduler, correspondence runs, finders"}],
 "checks": [], "not_applicable": [],
 "notes": "See DESIGN.md. Every check: the translator regenerates coq/Gen from /repo/src, make re-checks the property's Coq cone (full .vo build), the harness is rebuilt against /repo's working tree and runs the correspondence and the finder for the property.",
}
for p in props:
    pid = p["id"]
    if pid in CLAIMS:
        c = CLAIMS[pid]
        m["checks"].append({
            "property_id": pid, "quick_cmd": f"./check {pid} quick", "thorough_cmd": f"./check {pid} thorough",
            "evidence_file": f"evidence/{pid}.json", "replay_cmd_template": f"./check {pid} quick --replay {{path}}",
            "engine": "coq", "level_claimed": {"category": "proof", "text": c["text"], "design_ref": c["ref"]},
            "level_note": c["note"], "technique": c["tech"]})
    else:
        m["not_applicable"].append({"property_id": pid, "reason": "not claimed yet: its Coq theorem and correspondence are under construction in this round (plan in DESIGN.md section 5)"})
for e in m["engines"]:
    e["serves_properties"] = [c["property_id"] for c in m["checks"]]
json.dump(m, open(os.path.join(ROOT, "MANIFEST.json"), "w"), indent=1)
print("claimed:", [c["property_id"] for c in m["checks"]])
