"""Compile-time corpus for C16 / C17: small programs compiled with rustc against the flurry rlib
built from /repo's working tree. Each program has an expected verdict computed from the Coq
tables (tied => the violating variants must be rejected with a borrow error; inserting => the
non-thread-safe instantiations must be rejected with a Send/Sync bound error)."""
import glob, os, re, subprocess, concurrent.futures

PRELUDE_MAP = """use flurry::*;
#[allow(unused_variables, unused_mut, dead_code)]
fn main() {
    let c = seize::Collector::new();
    let map: HashMap<u32, String> = HashMap::new().with_collector(c.clone());
    let set: HashSet<u32> = HashSet::new();
    let mut guard = c.enter();
    let mut sguard = set.guard();
"""

# (type, method) -> (setup, call expression producing `r`, use expression, which guard it hangs on)
C16_CALLS = {
    ("HashMap", "get"): ("", "map.get(&1, &guard)", "r.is_some()", "guard"),
    ("HashMap", "get_key_value"): ("", "map.get_key_value(&1, &guard)", "r.is_some()", "guard"),
    ("HashMap", "insert"): ("", "map.insert(1, String::new(), &guard)", "r.is_some()", "guard"),
    ("HashMap", "try_insert"): ("", "map.try_insert(1, String::new(), &guard)", "r.is_ok()", "guard"),
    ("HashMap", "compute_if_present"): ("", "map.compute_if_present(&1, |_, v| Some(v.clone()), &guard)", "r.is_some()", "guard"),
    ("HashMap", "remove"): ("", "map.remove(&1, &guard)", "r.is_some()", "guard"),
    ("HashMap", "remove_entry"): ("", "map.remove_entry(&1, &guard)", "r.is_some()", "guard"),
    ("HashMap", "iter"): ("", "map.iter(&guard)", "r.count()", "guard"),
    ("HashMap", "keys"): ("", "map.keys(&guard)", "r.count()", "guard"),
    ("HashMap", "values"): ("", "map.values(&guard)", "r.count()", "guard"),
    ("HashMap", "with_guard"): ("", "map.with_guard(&guard)", "r.len()", "guard"),
    ("HashMap", "pin"): ("", "map.pin()", "r.len()", None),
    ("HashMap", "guard"): ("", "map.guard()", "{ let _g = r; 0 }", None),
    ("HashSet", "get"): ("", "set.get(&1, &sguard)", "r.is_some()", "sguard"),
    ("HashSet", "take"): ("", "set.take(&1, &sguard)", "r.is_some()", "sguard"),
    ("HashSet", "iter"): ("", "set.iter(&sguard)", "r.count()", "sguard"),
    ("HashSet", "with_guard"): ("", "set.with_guard(&sguard)", "r.len()", "sguard"),
    ("HashSet", "pin"): ("", "set.pin()", "r.len()", None),
    ("HashSet", "guard"): ("", "set.guard()", "{ let _g = r; 0 }", None),
    ("HashMapRef", "get"): ("let mref = map.pin();", "mref.get(&1)", "r.is_some()", "mref"),
    ("HashMapRef", "get_key_value"): ("let mref = map.pin();", "mref.get_key_value(&1)", "r.is_some()", "mref"),
    ("HashMapRef", "insert"): ("let mref = map.pin();", "mref.insert(1, String::new())", "r.is_some()", "mref"),
    ("HashMapRef", "try_insert"): ("let mref = map.pin();", "mref.try_insert(1, String::new())", "r.is_ok()", "mref"),
    ("HashMapRef", "compute_if_present"): ("let mref = map.pin();", "mref.compute_if_present(&1, |_, v| Some(v.clone()))", "r.is_some()", "mref"),
    ("HashMapRef", "remove"): ("let mref = map.pin();", "mref.remove(&1)", "r.is_some()", "mref"),
    ("HashMapRef", "remove_entry"): ("let mref = map.pin();", "mref.remove_entry(&1)", "r.is_some()", "mref"),
    ("HashMapRef", "iter"): ("let mref = map.pin();", "mref.iter()", "r.count()", "mref"),
    ("HashMapRef", "keys"): ("let mref = map.pin();", "mref.keys()", "r.count()", "mref"),
    ("HashMapRef", "values"): ("let mref = map.pin();", "mref.values()", "r.count()", "mref"),
    ("HashMapRef", "index"): ("let mref = map.pin(); mref.insert(1, String::new());", "&mref[&1]", "r.len()", "mref"),
    ("HashSetRef", "get"): ("let sref = set.pin();", "sref.get(&1)", "r.is_some()", "sref"),
    ("HashSetRef", "take"): ("let sref = set.pin();", "sref.take(&1)", "r.is_some()", "sref"),
    ("HashSetRef", "iter"): ("let sref = set.pin();", "sref.iter()", "r.count()", "sref"),
}


# results made of several references: each part kept on its own must be tied as well
# (type, method) -> [(tag, call expression producing `r`, use expression)]
C16_PARTS = {
    ("HashMap", "get_key_value"): [("key", "map.get_key_value(&1, &guard).map(|(k, _)| k)", "r.is_some()"),
                                   ("value", "map.get_key_value(&1, &guard).map(|(_, v)| v)", "r.is_some()")],
    ("HashMap", "remove_entry"): [("key", "map.remove_entry(&1, &guard).map(|(k, _)| k)", "r.is_some()"),
                                  ("value", "map.remove_entry(&1, &guard).map(|(_, v)| v)", "r.is_some()")],
    ("HashMap", "iter"): [("key", "map.iter(&guard).next().map(|(k, _)| k)", "r.is_some()"),
                          ("value", "map.iter(&guard).next().map(|(_, v)| v)", "r.is_some()")],
    ("HashMap", "keys"): [("item", "map.keys(&guard).next()", "r.is_some()")],
    ("HashMap", "values"): [("item", "map.values(&guard).next()", "r.is_some()")],
    ("HashMap", "try_insert"): [("ok", "map.try_insert(1, String::new(), &guard).ok()", "r.is_some()"),
                                ("current", "map.try_insert(1, String::new(), &guard).err().map(|e| e.current)", "r.is_some()")],
    ("HashSet", "iter"): [("item", "set.iter(&sguard).next()", "r.is_some()")],
    ("HashMapRef", "get_key_value"): [("key", "mref.get_key_value(&1).map(|(k, _)| k)", "r.is_some()"),
                                      ("value", "mref.get_key_value(&1).map(|(_, v)| v)", "r.is_some()")],
    ("HashMapRef", "remove_entry"): [("key", "mref.remove_entry(&1).map(|(k, _)| k)", "r.is_some()"),
                                     ("value", "mref.remove_entry(&1).map(|(_, v)| v)", "r.is_some()")],
    ("HashMapRef", "iter"): [("key", "mref.iter().next().map(|(k, _)| k)", "r.is_some()"),
                             ("value", "mref.iter().next().map(|(_, v)| v)", "r.is_some()")],
    ("HashMapRef", "try_insert"): [("ok", "mref.try_insert(1, String::new()).ok()", "r.is_some()"),
                                   ("current", "mref.try_insert(1, String::new()).err().map(|e| e.current)", "r.is_some()")],
    ("HashSetRef", "iter"): [("item", "sref.iter().next()", "r.is_some()")],
}


def c16_programs(rows):
    """rows: list of (ty, name) of borrow-returning public methods (from gen.json)."""
    progs, missing = [], []
    for ty, name in rows:
        key = (ty, name)
        if key not in C16_CALLS:
            missing.append(f"{ty}::{name}")
            continue
        setup, call, use, hang = C16_CALLS[key]
        owner = "set" if ty.startswith("HashSet") else "map"
        variants = [("control", "", True)]
        if hang in ("guard", "sguard"):
            variants.append(("use_after_drop_guard", f"drop({hang});", False))
            variants.append(("use_after_refresh_guard", f"{hang}.refresh();", False))
        if hang in ("mref", "sref"):
            variants.append(("use_after_drop_ref", f"drop({hang});", False))
        variants.append(("use_after_drop_collection", f"drop({owner});", False))
        for vname, viol, ok in variants:
            body = PRELUDE_MAP + f"    {setup}\n    let mut r = {call};\n    {viol}\n    let _ = {use};\n}}\n"
            progs.append((f"{ty}_{name}_{vname}", body, ok, "borrow"))
            for ptag, pcall, puse in C16_PARTS.get(key, []):
                body = PRELUDE_MAP + f"    {setup}\n    let mut r = {pcall};\n    {viol}\n    let _ = {puse};\n}}\n"
                progs.append((f"{ty}_{name}_{ptag}_{vname}", body, ok, "borrow"))
    # positive controls: keys, values and lookup keys need not be 'static
    progs.append(("non_static_kv", """use flurry::*;
fn main() {
    let s = String::from("k");
    let v = 5u32;
    {
        let map: HashMap<&str, &u32> = HashMap::new();
        let m = map.pin();
        m.insert(&s[..], &v);
        let q = String::from("k");
        let _ = m.get(&q[..]);
        let set: HashSet<&str> = HashSet::new();
        set.pin().insert(&s[..]);
    }
}
""", True, "borrow"))
    # the converse half for lookup keys: a borrowed, unsized, short-lived key works with every
    # key-taking method of both facades, for owned (String) and borrowed ('static str) stored keys
    for kty, mk in (("String", "String::from(\"a\")"), ("&'static str", "\"a\"")):
        progs.append((f"short_lived_unsized_lookup_keys_{'owned' if kty == 'String' else 'static'}", f"""use flurry::*;
#[allow(unused_variables, unused_must_use)]
fn main() {{
    let map: HashMap<{kty}, u32> = HashMap::new();
    let set: HashSet<{kty}> = HashSet::new();
    map.pin().insert({mk}, 1);
    set.pin().insert({mk});
    {{
        let local = String::from("a");
        let q: &str = &local[..];
        let g = map.guard();
        let sg = set.guard();
        map.get(q, &g); map.get_key_value(q, &g); map.contains_key(q, &g);
        map.compute_if_present(q, |_, v| Some(*v), &g); map.remove_entry(q, &g); map.remove(q, &g);
        set.contains(q, &sg); set.get(q, &sg); set.take(q, &sg); set.remove(q, &sg);
        let p = map.pin();
        p.get(q); p.get_key_value(q); p.contains_key(q);
        p.compute_if_present(q, |_, v| Some(*v)); p.remove_entry(q); p.remove(q);
        if false {{ let _ = &p[q]; }}
        let w = map.with_guard(&g);
        w.get(q); w.remove_entry(q);
        let sp = set.pin();
        sp.contains(q); sp.get(q); sp.take(q); sp.remove(q);
    }}
}}
""", True, "borrow"))
    # ... and a lookup key never has to live as long as the result it found (no method ties its key
    # parameter to the guard's lifetime): every borrow handed out is kept after the key is gone
    progs.append(("lookup_results_outlive_lookup_keys", """use flurry::*;
#[allow(unused_variables, unused_must_use)]
fn main() {
    let map: HashMap<String, u32> = HashMap::new();
    let set: HashSet<String> = HashSet::new();
    let g = map.guard();
    let sg = set.guard();
    let p = map.pin();
    let w = map.with_guard(&g);
    let sp = set.pin();
    let sw = set.with_guard(&sg);
    let mut vals: Vec<Option<&u32>> = Vec::new();
    let mut keys: Vec<Option<&String>> = Vec::new();
    let mut kvs: Vec<Option<(&String, &u32)>> = Vec::new();
    {
        let local = String::from("a");
        let q: &str = &local[..];
        vals.push(map.get(q, &g)); kvs.push(map.get_key_value(q, &g));
        vals.push(map.compute_if_present(q, |_, v| Some(*v), &g));
        kvs.push(map.remove_entry(q, &g)); vals.push(map.remove(q, &g));
        keys.push(set.get(q, &sg)); keys.push(set.take(q, &sg));
        vals.push(p.get(q)); kvs.push(p.get_key_value(q));
        vals.push(p.compute_if_present(q, |_, v| Some(*v)));
        kvs.push(p.remove_entry(q)); vals.push(p.remove(q));
        vals.push(w.get(q)); kvs.push(w.get_key_value(q)); kvs.push(w.remove_entry(q)); vals.push(w.remove(q));
        keys.push(sp.get(q)); keys.push(sp.take(q));
        keys.push(sw.get(q)); keys.push(sw.take(q));
    }
    drop((vals, keys, kvs));
}
""", True, "borrow"))
    return progs, missing


C17_PRELUDE = """#![allow(dead_code, unused_imports, unused_variables)]
use flurry::*;
use std::rc::Rc;
use std::cell::Cell;
use std::hash::{Hash, Hasher};
use std::cmp::Ordering;
// Send but not Sync
#[derive(Clone, Debug)]
struct NotSync(Cell<u8>);
impl PartialEq for NotSync { fn eq(&self, o: &Self) -> bool { self.0.get() == o.0.get() } }
impl Eq for NotSync {}
impl PartialOrd for NotSync { fn partial_cmp(&self, o: &Self) -> Option<Ordering> { Some(self.cmp(o)) } }
impl Ord for NotSync { fn cmp(&self, o: &Self) -> Ordering { self.0.get().cmp(&o.0.get()) } }
impl Hash for NotSync { fn hash<H: Hasher>(&self, h: &mut H) { self.0.get().hash(h) } }
// Sync but not Send
#[derive(Clone, Debug, PartialEq, Eq, PartialOrd, Ord, Hash)]
struct NotSend(u8, std::marker::PhantomData<std::sync::MutexGuard<'static, u8>>);
"""

BAD_TYPES = [("Rc<u8>", "rc"), ("NotSync", "notsync"), ("NotSend", "notsend")]

# inserting entry points: name -> statement template with {K} {V} (map) or {T} (set)
C17_MAP = {
    "insert": "let m: HashMap<{K}, {V}> = HashMap::new(); let g = m.guard(); let (k, v): ({K}, {V}) = todo!(); m.insert(k, v, &g);",
    "try_insert": "let m: HashMap<{K}, {V}> = HashMap::new(); let g = m.guard(); let (k, v): ({K}, {V}) = todo!(); let _ = m.try_insert(k, v, &g);",
    "compute_if_present": "let m: HashMap<{K}, {V}> = HashMap::new(); let g = m.guard(); let k: {K} = todo!(); m.compute_if_present(&k, |_, _| None, &g);",
    "extend": "let m: HashMap<{K}, {V}> = HashMap::new(); let items: Vec<({K}, {V})> = vec![]; let mut r = &m; Extend::extend(&mut r, items);",
    "from_iter": "let items: Vec<({K}, {V})> = vec![]; let m: HashMap<{K}, {V}> = items.into_iter().collect();",
    "clone": "let m: HashMap<{K}, {V}> = HashMap::new(); let _ = m.clone();",
    "ref_insert": "let m: HashMap<{K}, {V}> = HashMap::new(); let (k, v): ({K}, {V}) = todo!(); m.pin().insert(k, v);",
    "ref_try_insert": "let m: HashMap<{K}, {V}> = HashMap::new(); let (k, v): ({K}, {V}) = todo!(); let _ = m.pin().try_insert(k, v);",
    "ref_compute_if_present": "let m: HashMap<{K}, {V}> = HashMap::new(); let k: {K} = todo!(); m.pin().compute_if_present(&k, |_, _| None);",
}
C17_SET = {
    "set_insert": "let s: HashSet<{T}> = HashSet::new(); let g = s.guard(); let t: {T} = todo!(); s.insert(t, &g);",
    "set_extend": "let s: HashSet<{T}> = HashSet::new(); let items: Vec<{T}> = vec![]; let mut r = &s; Extend::extend(&mut r, items);",
    "set_from_iter": "let items: Vec<{T}> = vec![]; let s: HashSet<{T}> = items.into_iter().collect();",
    "set_clone": "let s: HashSet<{T}> = HashSet::new(); let _ = s.clone();",
    "set_ref_insert": "let s: HashSet<{T}> = HashSet::new(); let t: {T} = todo!(); s.pin().insert(t);",
}
C17_LOOKUP = ("let m: HashMap<{K}, {V}> = HashMap::new(); let g = m.guard(); let k: {K} = todo!(); "
              "let _ = m.get(&k, &g); let _ = m.get_key_value(&k, &g); let _ = m.contains_key(&k, &g); "
              "let _ = m.iter(&g).count(); let _ = m.keys(&g).count(); let _ = m.values(&g).count(); "
              "let _ = m.len(); let _ = m.is_empty(); let p = m.pin(); let _ = p.get(&k); let _ = p.iter().count(); "
              "let s: HashSet<{K}> = HashSet::new(); let sg = s.guard(); let _ = s.contains(&k, &sg); let _ = s.iter(&sg).count(); "
              # every other read-only entry point, through both facades
              "if false {{ let _ = &p[&k]; }} let _ = p.get_key_value(&k); let _ = p.contains_key(&k); let _ = p.keys().count(); let _ = p.values().count(); "
              "let _ = p.len(); let _ = p.is_empty(); let w = m.with_guard(&g); let _ = w.get(&k); let _ = w.iter().count(); "
              "let _ = s.get(&k, &sg); let _ = s.len(); let _ = s.is_empty(); "
              "let s2: HashSet<{K}> = HashSet::new(); let sg2 = s2.guard(); "
              "let _ = s.is_disjoint(&s2, &sg, &sg2); let _ = s.is_subset(&s2, &sg, &sg2); let _ = s.is_superset(&s2, &sg, &sg2); "
              "let sp = s.pin(); let sp2 = s2.pin(); let _ = sp.contains(&k); let _ = sp.get(&k); let _ = sp.iter().count(); "
              "let _ = sp.len(); let _ = sp.is_empty(); "
              "let _ = sp.is_disjoint(&sp2); let _ = sp.is_subset(&sp2); let _ = sp.is_superset(&sp2);")


def c17_programs():
    progs = []
    for name, tpl in C17_MAP.items():
        for bad, tag in BAD_TYPES:
            progs.append((f"{name}_K_{tag}", C17_PRELUDE + "fn main() { " + tpl.format(K=bad, V="u8") + " }\n", False, "bound"))
            progs.append((f"{name}_V_{tag}", C17_PRELUDE + "fn main() { " + tpl.format(K="u8", V=bad) + " }\n", False, "bound"))
        progs.append((f"{name}_control", C17_PRELUDE + "fn main() { " + tpl.format(K="u8", V="String") + " }\n", True, "bound"))
    for name, tpl in C17_SET.items():
        for bad, tag in BAD_TYPES:
            progs.append((f"{name}_T_{tag}", C17_PRELUDE + "fn main() { " + tpl.format(T=bad) + " }\n", False, "bound"))
        progs.append((f"{name}_control", C17_PRELUDE + "fn main() { " + tpl.format(T="u8") + " }\n", True, "bound"))
    for bad, tag in BAD_TYPES:
        progs.append((f"lookup_K_{tag}", C17_PRELUDE + "fn main() { " + C17_LOOKUP.format(K=bad, V="u8") + " }\n", True, "bound"))
        progs.append((f"lookup_V_{tag}", C17_PRELUDE + "fn main() { " + C17_LOOKUP.format(K="u8", V=bad) + " }\n", True, "bound"))
    return progs


def find_rlibs(deps_dir):
    ext = {}
    for crate in ("flurry", "seize"):
        c = sorted(glob.glob(os.path.join(deps_dir, f"lib{crate}-*.rlib")), key=os.path.getmtime)
        if not c:
            return None
        ext[crate] = c[-1]
    return ext


def compile_all(progs, deps_dir, work_dir, jobs=16):
    os.makedirs(work_dir, exist_ok=True)
    ext = find_rlibs(deps_dir)
    if ext is None:
        return None

    def one(p):
        name, body, expect_ok, kind = p
        src = os.path.join(work_dir, name + ".rs")
        open(src, "w").write(body)
        cmd = ["rustc", "--edition", "2021", "--crate-type", "bin", "--emit=metadata", "--cfg", "flurry_verif",
               "-L", f"dependency={deps_dir}", "--extern", f"flurry={ext['flurry']}", "--extern", f"seize={ext['seize']}",
               "-o", os.path.join(work_dir, name + ".rmeta"), "-A", "warnings", src]
        r = subprocess.run(cmd, stdout=subprocess.PIPE, stderr=subprocess.STDOUT, text=True)
        codes = sorted(set(re.findall(r"error\[(E\d+)\]", r.stdout)))
        return name, r.returncode == 0, codes, r.stdout, expect_ok, kind, src

    with concurrent.futures.ThreadPoolExecutor(max_workers=jobs) as ex:
        return list(ex.map(one, progs))


BORROW_CODES = {"E0505", "E0597", "E0502", "E0499", "E0716", "E0506", "E0503"}


def judge(results):
    """returns (failures, stats)"""
    fails = []
    stats = {"programs": len(results), "rejected_as_expected": 0, "accepted_as_expected": 0, "codes": {}}
    for name, ok, codes, out, expect_ok, kind, src in results:
        for c in codes:
            stats["codes"][c] = stats["codes"].get(c, 0) + 1
        if expect_ok:
            if ok:
                stats["accepted_as_expected"] += 1
            else:
                fails.append((name, src, "a program that must compile was rejected: " + " | ".join(l for l in out.strip().split("\n") if l.startswith("error"))[:300]))
        else:
            if ok:
                fails.append((name, src, "a program that must be rejected compiled"))
            elif kind == "borrow" and not (set(codes) & BORROW_CODES) :
                fails.append((name, src, f"rejected, but not by the borrow checker (codes {codes}): " + out.strip().split("\n")[0][:300]))
            elif kind == "bound" and not ("E0277" in codes or "E0599" in codes):
                fails.append((name, src, f"rejected, but not for an unsatisfied trait bound (codes {codes}): " + out.strip().split("\n")[0][:300]))
            else:
                stats["rejected_as_expected"] += 1
                if kind == "bound" and re.search(r"Send|Sync|between threads", out):
                    stats["rejections_naming_send_sync"] = stats.get("rejections_naming_send_sync", 0) + 1
    return fails, stats
